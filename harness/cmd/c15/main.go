// Command c15: correspondence and oracle harness for property C15 (ignore
// patterns are an exact filter; `paths` globs see the root-relative path for
// every working directory and spelling; exit status).
//
// It creates a scratch repository on disk, runs the exported
// actionlint.Command.Main under generated combinations of -ignore patterns,
// `paths` configuration, working directory and path spelling, parses stdout
// and compares it with (a) the property's reference: unfiltered list minus
// the diagnostics matched by an applicable pattern, same order, exit status
// 1/0/2/3; (b) the Coq model (cases.txt, evaluated by the check driver).
package main

import (
	"bytes"
	"encoding/json"
	"flag"
	"fmt"
	"os"
	"path/filepath"
	"regexp"
	"sort"
	"strconv"
	"strings"

	"github.com/bmatcuk/doublestar/v4"
	"github.com/rhysd/actionlint"

	"verifharness/hx"
)

// ---- fixed repository content ------------------------------------------

// root-relative slash paths of the workflow files, in the order LintDir visits them
var wfFiles = []string{
	".github/workflows/a.yml",
	".github/workflows/b.yml",
	".github/workflows/e.yml",
	".github/workflows/sub/c.yaml",
	".github/workflows/sub/deep/d.yml",
	".github/workflows/z-broken.yml", // not well-formed YAML: one diagnostic, filtered like any other
}

var wfContent = map[string]string{
	".github/workflows/a.yml": `on: push
jobs:
  test:
    runs-on: ubuntu-latest
    steps:
      - run: echo ${{ unknown_ctx.x }}
      - uses: actions/checkout@v4
        with:
          nope: 1
      - id: a
        run: echo
      - id: a
        run: echo ${{ steps.zzz.outputs.x }}
`,
	".github/workflows/b.yml": `on:
  push:
    branch: main
jobs:
  build:
    runs-on: [ubuntu-latest, windows-latest]
    needs: [nothing]
    steps:
      - run: echo ${{ github.event.head_commit.message }}
        shell: fish
      - uses: actions/checkout
`,
	// several diagnostics at ONE position (the two missing inputs), produced by a rule that runs after
	// the rules of the other diagnostics of the file: the filtered list keeps their relative order
	".github/workflows/e.yml": `on: push
jobs:
  cache:
    runs-on: no-such-label
    steps:
      - uses: actions/upload-artifact@v4
        with:
          nope: 1
          nope2: 2
      - uses: actions/cache@v4
`,
	".github/workflows/sub/c.yaml": `on: pull_request
jobs:
  one:
    runs-on: ubuntu-latest
    strategy:
      matrix:
        os: [a, a]
    steps:
      - run: echo ${{ matrix.os2 }}
      - run: echo ${{ env.FOO == 1 + }}
  one:
    runs-on: ubuntu-latest
    steps: []
`,
	".github/workflows/z-broken.yml": "on: push\njobs:\n  a: [\n",
	".github/workflows/sub/deep/d.yml": `on: push
jobs:
  ok:
    runs-on: ubuntu-latest
    steps:
      - run: echo fine
`,
}

var regexPool = []string{
	`undefined`, `^step ID`, `"nope"`, `.`, `zzzz_nomatch`, `is not defined`, `property .* not defined`,
	`^input `, `shell name`, `duplicate`, `unexpected key`, `(?i)LABEL`, `job "[a-z]+"`, `\$\{\{`, `potentially untrusted`,
	`^[a-z]`, `ID "a"`, `"os2?"`, `got unexpected`, `x$|y$`,
	// patterns that match no message on their own (upper-case spellings); an inline flag of a
	// NEIGHBOURING pattern must not reach them
	`LABEL "`, `IS NOT DEFINED`, `STEP ID`,
	// the empty pattern matches every message
	``,
	// fully anchored plain texts: they match a message only if it IS that text (none is)
	`^undefined$`, `\Alabel\z`, `^is not defined$`, `^could not parse as YAML$`,
	`could not parse`,
	// white space at the edge of a pattern is part of it: these match nothing (the messages have
	// "is unknown." and start with "undefined"), their trimmed forms would
	`is unknown `, ` undefined`, ` is not defined in object type `,
}

// patterns whose inline flags / quoting must stay confined to the pattern itself
var leaderPool = []string{`(?i)zzzz_nomatch`, `(?is)qqqq_nomatch`, `(?i)^nomatch$`, `\Qzzzz.nomatch`, `(?U)zzzz+_nomatch`}
var upperPool = []string{`LABEL "`, `IS NOT DEFINED`, `STEP ID`, `UNDEFINED`, `"NOPE"`}

// leaderList is an ignore list where a flag-carrying pattern that matches nothing precedes
// patterns that match only if the flag leaked into them
func leaderList(r *hx.Rng) []string {
	l := []string{r.Pick(leaderPool), r.Pick(upperPool)}
	if r.Chance(1, 2) {
		l = append(l, r.Pick(regexPool))
	}
	return l
}

var globPool = []string{
	".github/workflows/*.yml", ".github/workflows/**/*.yaml", "**/*.yml", "*.yml", ".github/**", "**",
	"a.yml", "sub/*.yaml", "workflows/*.yml", "**/a.yml", "repo/**", "sub/**", "../**", "**/sub/**/*.yml",
	".github/workflows/{a,b}.yml", "deep/d.yml", "workflows/**", "*", ".github/workflows/sub/c.yaml", "c.yaml",
	// not lexically clean: a root-relative path never has these shapes, so they match no file
	"./.github/workflows/*.yml", ".github/workflows/./a.yml", ".github//workflows/*.yml", ".github/workflows/sub/../a.yml", "./**",
}

// ---- layout ---------------------------------------------------------------

type layout struct {
	base string // scratch dir
	root string // base/w/repo
}

func mkLayout() *layout {
	base := fmt.Sprintf("/var/tmp/out-c15-%d", os.Getpid())
	hx.Must(os.RemoveAll(base))
	l := &layout{base: base, root: filepath.Join(base, "w", "repo")}
	theLayout = l
	for _, d := range []string{".git", ".github/workflows/sub/deep", "nested/dir"} {
		hx.Must(os.MkdirAll(filepath.Join(l.root, d), 0o755))
	}
	hx.Must(os.MkdirAll(filepath.Join(base, "other", "x"), 0o755))
	// a directory beside the repository whose path is a string prefix of the repository's
	hx.Must(os.MkdirAll(filepath.Join(base, "w", "rep"), 0o755))
	// the same repository reached through a symbolic link that lives outside of it
	hx.Must(os.Symlink(l.root, filepath.Join(base, "lnk")))
	for rel, c := range wfContent {
		hx.Must(os.WriteFile(filepath.Join(l.root, rel), []byte(c), 0o644))
	}
	return l
}

func (l *layout) cleanup() { os.Chdir("/"); os.RemoveAll(l.base) }

var theLayout *layout

// must is hx.Must that removes the scratch repository before exiting.
func must(err error) {
	if err != nil {
		if theLayout != nil {
			theLayout.cleanup()
		}
		hx.Must(err)
	}
}

var cwdKinds = []string{"root", "parent", "nested", "nested-workflows", "nested-sub", "unrelated", "grandparent", "prefix-sibling"}

func (l *layout) cwd(kind string) string {
	switch kind {
	case "root":
		return l.root
	case "parent":
		return filepath.Dir(l.root)
	case "grandparent":
		return l.base
	case "prefix-sibling":
		return filepath.Join(l.base, "w", "rep")
	case "nested":
		return filepath.Join(l.root, "nested", "dir")
	case "nested-workflows":
		return filepath.Join(l.root, ".github", "workflows")
	case "nested-sub":
		return filepath.Join(l.root, ".github", "workflows", "sub")
	default:
		return filepath.Join(l.base, "other", "x")
	}
}

// ---- one invocation -------------------------------------------------------

type pathsEntry struct {
	Glob   string   `json:"glob"`
	Ignore []string `json:"ignore"`
}

type spec struct {
	Mode     int          `json:"mode"` // 0 lint, 1 help, 2 flag error, 3 fatal, 4 version
	CwdKind  string       `json:"cwd_kind"`
	Spelling string       `json:"spelling"` // relative, dot, absolute, noisy, noargs
	Files    []string     `json:"files"`    // root-relative slash paths
	CLI      []string     `json:"cli_ignore"`
	Paths    []pathsEntry `json:"paths"`
	CfgName  string       `json:"config_name"` // "" = no config file
	Extra    []string     `json:"extra_flags"`
	RawArgs  []string     `json:"raw_args,omitempty"`   // mode != 0: arguments verbatim
	RawCfg   string       `json:"raw_config,omitempty"` // mode != 0: the repository's configuration file verbatim
	CfgKind  string       `json:"config_kind,omitempty"` // "dir": the configuration path is a directory; "loop": a symbolic link to itself
}

type diagT struct {
	File int    `json:"file"` // index into wfFiles
	Line int    `json:"line"`
	Col  int    `json:"col"`
	Msg  string `json:"msg"`
	Kind string `json:"kind"`
}

func yamlSingle(s string) string { return "'" + strings.ReplaceAll(s, "'", "''") + "'" }

func (s *spec) configText() string {
	var b strings.Builder
	b.WriteString("self-hosted-runner:\n  labels: []\n")
	if len(s.Paths) > 0 {
		b.WriteString("paths:\n")
		for _, p := range s.Paths {
			fmt.Fprintf(&b, "  %s:\n    ignore:\n", yamlSingle(p.Glob))
			for _, r := range p.Ignore {
				fmt.Fprintf(&b, "      - %s\n", yamlSingle(r))
			}
		}
	}
	return b.String()
}

// spell returns the command-line spelling of the file for the cwd.
// rootOf is the repository root as the spelled path reaches it
func (l *layout) rootOf(s *spec) string {
	if strings.HasPrefix(s.Spelling, "link") {
		return filepath.Join(l.base, "lnk")
	}
	return l.root
}

func (l *layout) spell(s *spec, rel string) string {
	abs := filepath.Join(l.rootOf(s), filepath.FromSlash(rel))
	cwd := l.cwd(s.CwdKind)
	r, err := filepath.Rel(cwd, abs)
	must(err)
	switch s.Spelling {
	case "absolute", "link-abs", "stdin-abs":
		return abs
	case "dot":
		return "./" + r
	case "noisy":
		// detour through the directory of the file and doubled separators
		d, f := filepath.Split(r)
		if d == "" {
			return ".//" + f
		}
		return d + "/./" + "../" + filepath.Base(filepath.Dir(abs)) + "//" + f
	case "noisy-abs":
		d, f := filepath.Split(abs)
		return d + "./" + f
	}
	return r
}

func (l *layout) args(s *spec) (files []string, all []string) {
	all = []string{"actionlint"}
	if s.Mode != 0 {
		return nil, append(all, s.RawArgs...)
	}
	all = append(all, "-oneline", "-no-color", "-shellcheck=", "-pyflakes=")
	for _, p := range s.CLI {
		all = append(all, "-ignore", p)
	}
	all = append(all, s.Extra...)
	if strings.HasPrefix(s.Spelling, "stdin") {
		// the content arrives on stdin under the name of the repository file
		return nil, append(all, "-stdin-filename", l.spell(s, s.Files[0]), "-")
	}
	if s.Spelling != "noargs" {
		for _, f := range s.Files {
			files = append(files, l.spell(s, f))
		}
	}
	return files, append(all, files...)
}

func (l *layout) run(s *spec) (stdout string, status int) {
	for _, n := range []string{"actionlint.yaml", "actionlint.yml"} {
		os.Remove(filepath.Join(l.root, ".github", n))
	}
	if s.CfgKind == "dir" {
		must(os.Mkdir(filepath.Join(l.root, ".github", "actionlint.yaml"), 0o755))
	} else if s.CfgKind == "loop" {
		must(os.Symlink("actionlint.yml", filepath.Join(l.root, ".github", "actionlint.yml")))
	} else if s.RawCfg != "" {
		must(os.WriteFile(filepath.Join(l.root, ".github", "actionlint.yaml"), []byte(s.RawCfg), 0o644))
	} else if s.CfgName != "" {
		must(os.WriteFile(filepath.Join(l.root, ".github", s.CfgName), []byte(s.configText()), 0o644))
	}
	must(os.Chdir(l.cwd(s.CwdKind)))
	_, args := l.args(s)
	var out, errb bytes.Buffer
	in := ""
	if strings.HasPrefix(s.Spelling, "stdin") {
		in = wfContent[s.Files[0]]
	}
	cmd := actionlint.Command{Stdin: strings.NewReader(in), Stdout: &out, Stderr: &errb}
	status = cmd.Main(args)
	return out.String(), status
}

var lineRe = regexp.MustCompile(`^([^:]+):(\d+):(\d+): (.*) \[([^\[\] ]+)\]$`)

// parse maps stdout back to diagnostics; the displayed path is resolved
// against the cwd to find the file it denotes.
func (l *layout) parse(s *spec, stdout string) ([]diagT, error) {
	var ds []diagT
	cwd := l.cwd(s.CwdKind)
	for _, ln := range strings.Split(strings.TrimSuffix(stdout, "\n"), "\n") {
		if ln == "" {
			continue
		}
		m := lineRe.FindStringSubmatch(ln)
		if m == nil {
			return nil, fmt.Errorf("unparsable line %q", ln)
		}
		p := m[1]
		if !filepath.IsAbs(p) {
			p = filepath.Join(cwd, p)
		}
		p = filepath.Clean(p)
		fi := -1
		for i, rel := range wfFiles {
			if p == filepath.Join(l.root, filepath.FromSlash(rel)) || p == filepath.Join(l.base, "lnk", filepath.FromSlash(rel)) {
				fi = i
			}
		}
		if fi < 0 {
			return nil, fmt.Errorf("line %q names unknown file %q", ln, p)
		}
		li, _ := strconv.Atoi(m[2])
		co, _ := strconv.Atoi(m[3])
		ds = append(ds, diagT{File: fi, Line: li, Col: co, Msg: m[4], Kind: m[5]})
	}
	return ds, nil
}

func fileIndex(rel string) int {
	for i, f := range wfFiles {
		if f == rel {
			return i
		}
	}
	return -1
}

// ---- the property's reference ----------------------------------------------

// filesOf returns the files of the run in output order.
func filesOf(s *spec) []string {
	if s.Spelling == "noargs" {
		fs := append([]string{}, wfFiles...)
		sort.Strings(fs)
		return fs
	}
	return s.Files
}

// expected evaluates the property text: per file, the unfiltered diagnostics
// minus those whose message matches a -ignore pattern or a pattern of a
// `paths` entry whose glob matches the root-relative path; exit 1 iff any remains.
func expected(s *spec, baseline map[string][]diagT) ([]diagT, int) {
	switch s.Mode {
	case 1, 4:
		return nil, 0
	case 2:
		return nil, 2
	case 3:
		return nil, 3
	}
	var want []diagT
	for _, rel := range filesOf(s) {
		for _, d := range baseline[rel] {
			ign := false
			for _, p := range s.CLI {
				if regexp.MustCompile(p).MatchString(d.Msg) {
					ign = true
				}
			}
			if s.CfgName != "" {
				for _, pe := range s.Paths {
					ok, err := doublestar.Match(pe.Glob, rel)
					if err != nil || !ok {
						continue
					}
					for _, p := range pe.Ignore {
						if regexp.MustCompile(p).MatchString(d.Msg) {
							ign = true
						}
					}
				}
			}
			if !ign {
				want = append(want, d)
			}
		}
	}
	if len(want) > 0 {
		return want, 1
	}
	return want, 0
}

func sameDiags(a, b []diagT) bool {
	if len(a) != len(b) {
		return false
	}
	for i := range a {
		if a[i] != b[i] {
			return false
		}
	}
	return true
}

type failure struct {
	What   string   `json:"what"`
	Key    string   `json:"key"`
	Spec   *spec    `json:"spec"`
	Args   []string `json:"args"`
	Cwd    string   `json:"cwd"`
	Config string   `json:"config"`
	Got    []diagT  `json:"got"`
	Want   []diagT  `json:"want"`
	GotEx  int      `json:"got_exit"`
	WantEx int      `json:"want_exit"`
	Stdout string   `json:"stdout"`
}

// evalSpec runs one invocation and applies the oracle; returns the parsed
// output and nil or a failure.
func (l *layout) evalSpec(s *spec, baseline map[string][]diagT) ([]diagT, int, *failure) {
	stdout, status := l.run(s)
	want, wantEx := expected(s, baseline)
	_, args := l.args(s)
	mk := func(what, class string, got []diagT) *failure {
		return &failure{What: what, Key: fmt.Sprintf("c15:%s:cwd=%s:spelling=%s", class, s.CwdKind, s.Spelling), Spec: s, Args: args,
			Cwd: l.cwd(s.CwdKind), Config: s.configText(), Got: got, Want: want, GotEx: status, WantEx: wantEx, Stdout: stdout}
	}
	if s.Mode != 0 {
		if status != wantEx {
			return nil, status, mk(fmt.Sprintf("exit status %d, the property demands %d for %v", status, wantEx, s.RawArgs), "exit-mode", nil)
		}
		return nil, status, nil
	}
	got, err := l.parse(s, stdout)
	if err != nil {
		return nil, status, mk("stdout cannot be mapped back to diagnostics: "+err.Error(), "parse", nil)
	}
	if !sameDiags(got, want) {
		return got, status, mk("output differs from: unfiltered list minus diagnostics matched by an applicable pattern (paths entry applicable iff its glob matches the root-relative path), same order", "filter", got)
	}
	if status != wantEx {
		return got, status, mk(fmt.Sprintf("exit status %d with %d remaining diagnostics", status, len(got)), "exit", got)
	}
	return got, status, nil
}

// evalAPI runs the same spec through the library API with
// LinterOptions.WorkingDir = the spec's cwd while the PROCESS working directory
// is elsewhere ("/"): the property demands the same result ("independent of
// the current working directory").  Files are given by absolute path (a
// relative path could not be read from another process cwd).
func (l *layout) evalAPI(s *spec, baseline map[string][]diagT) *failure {
	if s.Mode != 0 || s.Spelling == "noargs" || len(s.Extra) > 0 || strings.HasPrefix(s.Spelling, "stdin") {
		return nil
	}
	for _, n := range []string{"actionlint.yaml", "actionlint.yml"} {
		os.Remove(filepath.Join(l.root, ".github", n))
	}
	if s.CfgName != "" {
		must(os.WriteFile(filepath.Join(l.root, ".github", s.CfgName), []byte(s.configText()), 0o644))
	}
	must(os.Chdir("/"))
	wd := l.cwd(s.CwdKind)
	var out bytes.Buffer
	lt, err := actionlint.NewLinter(&out, &actionlint.LinterOptions{Oneline: true, Color: actionlint.ColorOptionKindNever, IgnorePatterns: s.CLI, WorkingDir: wd})
	if err != nil {
		return nil // invalid pattern: covered by the CLI stream (exit status)
	}
	var files []string
	for _, f := range s.Files {
		files = append(files, filepath.Join(l.root, filepath.FromSlash(f)))
	}
	errs, err := lt.LintFiles(files, nil)
	want, _ := expected(s, baseline)
	mk := func(what string, got []diagT) *failure {
		return &failure{What: what, Key: fmt.Sprintf("c15:api-workingdir:cwd=%s", s.CwdKind), Spec: s, Args: files,
			Cwd: "/ (process), WorkingDir=" + wd, Config: s.configText(), Got: got, Want: want, Stdout: out.String()}
	}
	if err != nil {
		return mk("library run with WorkingDir failed: "+err.Error(), nil)
	}
	var got []diagT
	for _, e := range errs {
		p := e.Filepath
		if !filepath.IsAbs(p) {
			p = filepath.Join(wd, p)
		}
		p = filepath.Clean(p)
		fi := -1
		for i, rel := range wfFiles {
			if p == filepath.Join(l.root, filepath.FromSlash(rel)) {
				fi = i
			}
		}
		got = append(got, diagT{File: fi, Line: e.Line, Col: e.Column, Msg: e.Message, Kind: e.Kind})
	}
	if !sameDiags(got, want) {
		return mk("library run with LinterOptions.WorkingDir differing from the process working directory: output differs from the unfiltered list minus the applicable patterns", got)
	}
	return nil
}

// ---- Coq case ----------------------------------------------------------------

func coqNList(xs []int) string {
	ss := make([]string, len(xs))
	for i, x := range xs {
		ss[i] = hx.CoqN(x)
	}
	return hx.CoqList(ss)
}

func matchIDs(re string, msgs []string) []int {
	r := regexp.MustCompile(re)
	var ids []int
	for i, m := range msgs {
		if r.MatchString(m) {
			ids = append(ids, i)
		}
	}
	return ids
}

func (l *layout) coqCase(s *spec, baseline map[string][]diagT, msgs []string, got []diagT, status int) string {
	mid := func(m string) int {
		for i, x := range msgs {
			if x == m {
				return i
			}
		}
		return 9998
	}
	cwd := l.cwd(s.CwdKind)
	var fruns []string
	var candidates []string
	if s.Mode == 0 {
		for _, rel := range filesOf(s) {
			abs := filepath.Join(l.rootOf(s), filepath.FromSlash(rel))
			arg := abs // LintRepository hands absolute paths to LintFiles
			if s.Spelling != "noargs" {
				arg = l.spell(s, rel)
			}
			var es []string
			for _, d := range baseline[rel] {
				es = append(es, fmt.Sprintf("(%s,%s,%s)", hx.CoqN(d.Line), hx.CoqN(d.Col), hx.CoqN(mid(d.Msg))))
			}
			fruns = append(fruns, fmt.Sprintf("mkFrun %s %s", hx.CoqStr(arg), hx.CoqList(es)))
			cr, _ := filepath.Rel(cwd, abs)
			candidates = append(candidates, rel, cr, arg, abs, filepath.Clean(arg), ".")
		}
	}
	var cli []string
	for _, p := range s.CLI {
		cli = append(cli, coqNList(matchIDs(p, msgs)))
	}
	var paths, glob []string
	if s.CfgName != "" {
		seen := map[string]bool{}
		for gi, pe := range s.Paths {
			var pats []string
			for _, p := range pe.Ignore {
				pats = append(pats, coqNList(matchIDs(p, msgs)))
			}
			paths = append(paths, fmt.Sprintf("(%s, %s)", hx.CoqN(gi), hx.CoqList(pats)))
			for _, c := range candidates {
				k := fmt.Sprintf("%d\x00%s", gi, c)
				if seen[k] {
					continue
				}
				seen[k] = true
				glob = append(glob, fmt.Sprintf("(%s, %s, %s)", hx.CoqN(gi), hx.CoqStr(c), hx.CoqBool(doublestar.MatchUnvalidated(pe.Glob, filepath.ToSlash(c)))))
			}
		}
	}
	var obs []string
	for _, d := range got {
		// file index relative to the run's file list (first occurrence is enough: lists have no repeats)
		k := 0
		for i, rel := range filesOf(s) {
			if fileIndex(rel) == d.File {
				k = i
			}
		}
		obs = append(obs, coqNList([]int{k, d.Line, d.Col, mid(d.Msg)}))
	}
	obs = append(obs, coqNList([]int{1000, status}))
	return fmt.Sprintf("(mkIn %s %s %s %s %s %s %s, %s)", hx.CoqN(s.Mode), hx.CoqStr(cwd), hx.CoqStr(l.rootOf(s)),
		hx.CoqList(fruns), hx.CoqList(cli), hx.CoqList(paths), hx.CoqList(glob), hx.CoqList(obs))
}

// ---- generation -----------------------------------------------------------------

func genSpec(r *hx.Rng) *spec {
	s := &spec{CwdKind: r.Pick(cwdKinds)}
	inside := s.CwdKind == "root" || strings.HasPrefix(s.CwdKind, "nested")
	sp := []string{"relative", "dot", "absolute", "noisy", "noisy-abs", "link", "link-abs", "stdin", "stdin-abs"}
	if inside {
		sp = append(sp, "noargs")
	}
	s.Spelling = r.Pick(sp)
	if s.Spelling != "noargs" {
		perm := r.Perm(len(wfFiles))
		n := 1 + r.Intn(3)
		if strings.HasPrefix(s.Spelling, "stdin") {
			n = 1
		}
		for i := 0; i < n; i++ {
			s.Files = append(s.Files, wfFiles[perm[i]])
		}
	}
	switch r.Intn(4) {
	case 0: // CLI only
	case 1, 2, 3:
		s.CfgName = r.Pick([]string{"actionlint.yaml", "actionlint.yml"})
	}
	if s.CfgName != "" {
		n := 1 + r.Intn(3)
		if r.Chance(1, 8) {
			n = 0
		}
		perm := r.Perm(len(globPool))
		for i := 0; i < n; i++ {
			pe := pathsEntry{Glob: globPool[perm[i]]}
			k := 1 + r.Intn(2)
			for j := 0; j < k; j++ {
				pe.Ignore = append(pe.Ignore, r.Pick(regexPool))
			}
			if r.Chance(1, 4) {
				pe.Ignore = leaderList(r)
			}
			s.Paths = append(s.Paths, pe)
		}
	}
	if s.CfgName == "" || r.Chance(1, 3) {
		n := 1 + r.Intn(2)
		if r.Chance(1, 8) {
			n = 0
		}
		for i := 0; i < n; i++ {
			s.CLI = append(s.CLI, r.Pick(regexPool))
		}
		if r.Chance(1, 5) {
			s.CLI = leaderList(r)
		}
	}
	return s
}

// exit-status modes other than a completed lint run
func modeSpecs() []*spec {
	mk := func(mode int, cwd string, args ...string) *spec {
		return &spec{Mode: mode, CwdKind: cwd, Spelling: "raw", RawArgs: args}
	}
	out := []*spec{
		mk(1, "root", "-h"),
		mk(1, "unrelated", "-help"),
		mk(4, "root", "-version"),
		mk(2, "root", "-no-such-flag"),
		mk(2, "root", "-oneline=notabool", ".github/workflows/a.yml"),
		mk(2, "root", "-ignore"),
		mk(2, "unrelated", "-format"),
		mk(3, "root", "-shellcheck=", "-pyflakes=", "no/such/file.yml"),
		mk(3, "root", "-shellcheck=", "-pyflakes=", ".github/workflows/a.yml", "no/such/file.yml"),
		mk(3, "unrelated", "-shellcheck=", "-pyflakes="),
		mk(3, "root", "-shellcheck=", "-pyflakes=", "-config-file", "no/such/config.yaml", ".github/workflows/a.yml"),
	}
	// a -format template that fails when it is executed on a diagnostic is a fatal error for one file
	// as for several
	for _, files := range [][]string{{".github/workflows/a.yml"}, {".github/workflows/b.yml"}, {".github/workflows/a.yml", ".github/workflows/b.yml"}} {
		out = append(out, mk(3, "root", append([]string{"-shellcheck=", "-pyflakes=", "-format", "{{range $e := .}}{{$e.Nope}}{{end}}"}, files...)...))
	}
	// a broken configuration of the repository is a fatal error for one file, for several, for none
	for _, cfg := range []string{"paths:\n  'a[':\n    ignore: [x]\n", "paths:\n  '**':\n    ignore: ['(unclosed']\n", "self-hosted-runner: [\n"} {
		for _, files := range [][]string{{".github/workflows/a.yml"}, {".github/workflows/a.yml", ".github/workflows/b.yml"}, {}} {
			s := mk(3, "root", append([]string{"-shellcheck=", "-pyflakes="}, files...)...)
			s.RawCfg = cfg
			out = append(out, s)
		}
	}
	// a configuration file that exists but cannot be read is a fatal error as well
	for _, kind := range []string{"dir", "loop"} {
		for _, files := range [][]string{{".github/workflows/a.yml"}, {".github/workflows/a.yml", ".github/workflows/b.yml"}} {
			s := mk(3, "root", append([]string{"-shellcheck=", "-pyflakes="}, files...)...)
			s.CfgKind = kind
			out = append(out, s)
		}
	}
	return out
}

// dedicatedSpecs: completed lint runs of situations the random stream reaches rarely
func dedicatedSpecs() []*spec {
	var out []*spec
	all := []string{".*"}
	// `paths` keys that are not lexically clean apply to no file; beside a clean key that applies
	for _, f := range wfFiles {
		for _, g := range []string{"./.github/workflows/*.yml", "./**", ".github//workflows/*.yml", ".github/workflows/./" + filepath.Base(f), ".github/workflows/sub/../" + filepath.Base(f)} {
			out = append(out, &spec{CwdKind: "root", Spelling: "relative", Files: []string{f}, CfgName: "actionlint.yaml", Paths: []pathsEntry{{Glob: g, Ignore: all}}})
			out = append(out, &spec{CwdKind: "parent", Spelling: "absolute", Files: []string{f}, CfgName: "actionlint.yml",
				Paths: []pathsEntry{{Glob: g, Ignore: []string{"no such message"}}, {Glob: f, Ignore: all}}})
			out = append(out, &spec{CwdKind: "nested", Spelling: "dot", Files: []string{f}, CfgName: "actionlint.yaml",
				Paths: []pathsEntry{{Glob: f, Ignore: all}, {Glob: g, Ignore: []string{"no such message"}}}})
		}
	}
	// patterns that match the empty string and no message (anchored at both ends), among others
	for _, f := range wfFiles[:3] {
		for _, e := range []string{`^$`, `^\s*$`, `\A\z`, `^(zz)?$`} {
			out = append(out, &spec{CwdKind: "root", Spelling: "relative", Files: []string{f}, CLI: []string{e, "is not defined"}},
				&spec{CwdKind: "root", Spelling: "relative", Files: []string{f}, CLI: []string{"label", e, "undefined"}},
				&spec{CwdKind: "root", Spelling: "relative", Files: []string{f}, CLI: []string{e}},
				&spec{CwdKind: "parent", Spelling: "absolute", Files: []string{f}, CfgName: "actionlint.yaml", Paths: []pathsEntry{{Glob: "**", Ignore: []string{e, "is not defined"}}}})
		}
	}
	// the working directory is a sibling whose path is a string prefix of the repository's
	for _, sp := range []string{"absolute", "noisy-abs", "link-abs", "relative", "dot", "stdin-abs"} {
		for _, f := range wfFiles {
			out = append(out, &spec{CwdKind: "prefix-sibling", Spelling: sp, Files: []string{f}, CfgName: "actionlint.yaml", Paths: []pathsEntry{{Glob: f, Ignore: all}}})
			out = append(out, &spec{CwdKind: "prefix-sibling", Spelling: sp, Files: []string{f}, CfgName: "actionlint.yml", Paths: []pathsEntry{{Glob: "**", Ignore: []string{"label"}}}})
		}
	}
	return out
}

func main() {
	seed := flag.Uint64("seed", 1, "PRNG seed")
	n := flag.Int("n", 300, "number of generated invocations")
	out := flag.String("out", "", "output directory")
	replay := flag.String("replay", "", "replay file")
	flag.Parse()
	if *out != "" {
		*out, _ = filepath.Abs(*out)
	}
	if *replay != "" {
		*replay, _ = filepath.Abs(*replay)
	}

	l := mkLayout()
	defer l.cleanup()
	l.mkInner()

	// baseline: every file alone, from the root, absolute path, no patterns
	baseline := map[string][]diagT{}
	msgSet := map[string]bool{}
	for _, rel := range wfFiles {
		s := &spec{CwdKind: "root", Spelling: "absolute", Files: []string{rel}}
		stdout, _ := l.run(s)
		ds, err := l.parse(s, stdout)
		if err != nil {
			l.cleanup()
			must(err)
		}
		baseline[rel] = ds
		for _, d := range ds {
			msgSet[d.Msg] = true
		}
	}
	msgs := hx.SortedKeys(msgSet)

	if *replay != "" {
		b, err := os.ReadFile(*replay)
		must(err)
		var nf nfailure
		if json.Unmarshal(b, &nf) == nil && nf.Nested != nil {
			fail := l.evalNested(nf.Nested, l.nbaseline())
			fmt.Printf("cwd=%s\nargs=%q\nouter config:\n%sinner config (%s):\n%s", l.cwd(nf.Nested.CwdKind), l.nargs(nf.Nested), cfgText(nf.Nested.Outer), innerRel, cfgText(nf.Nested.Inner))
			if fail != nil {
				fmt.Printf("got (exit %d): %+v\nwant (exit %d): %+v\n", fail.GotEx, fail.Got, fail.WantEx, fail.Want)
				fmt.Println("REPLAY: property violated:", fail.What)
				l.cleanup()
				os.Exit(1)
			}
			fmt.Println("REPLAY: property holds on this input")
			return
		}
		var f failure
		must(json.Unmarshal(b, &f))
		got, status, fail := l.evalSpec(f.Spec, baseline)
		_, args := l.args(f.Spec)
		fmt.Printf("cwd=%s\nargs=%q\nconfig:\n%s", l.cwd(f.Spec.CwdKind), args, f.Spec.configText())
		fmt.Printf("got (exit %d):\n", status)
		for _, d := range got {
			fmt.Printf("  %s:%d:%d: %s\n", wfFiles[d.File], d.Line, d.Col, d.Msg)
		}
		if fail != nil {
			fmt.Printf("want (exit %d):\n", fail.WantEx)
			for _, d := range fail.Want {
				fmt.Printf("  %s:%d:%d: %s\n", wfFiles[d.File], d.Line, d.Col, d.Msg)
			}
			fmt.Println("REPLAY: property violated:", fail.What)
			l.cleanup()
			os.Exit(1)
		}
		fmt.Println("REPLAY: property holds on this input")
		return
	}

	must(os.MkdirAll(*out, 0o755))
	r := hx.NewRng(*seed)
	sum := hx.NewSummary("C15")
	sum.Rule = "invocations of actionlint.Command.Main on a scratch repository (4 workflow files, 14 distinct messages of 10 rules): cwd in {root, parent, grandparent, 3 nested, unrelated} x spelling in {relative, ./, absolute, noisy (detours, //), no arguments} x 1-3 files x 0-3 `paths` entries from a pool of 20 globs x ignore patterns from a pool of 20 regular expressions (CLI only / config only / both) + 11 exit-status invocations (help, version, bad flags, fatal errors) + a nested-repository stream (an inner repository with its own configuration inside the scratch repository; 2-4 files of both in any order; oracle + model run_c15n) + ignore lists led by a pattern with inline flags that matches nothing; non-trivial = at least one diagnostic was filtered out and at least one remained; distinct = distinct (cwd, args, config)"
	cases, err := os.Create(filepath.Join(*out, "cases.txt"))
	must(err)
	defer cases.Close()
	specsOut, err := os.Create(filepath.Join(*out, "specs.jsonl"))
	must(err)
	defer specsOut.Close()

	specs := append(modeSpecs(), dedicatedSpecs()...)
	for i := 0; i < *n; i++ {
		specs = append(specs, genSpec(r))
	}
	distinct := map[string]bool{}
	nontrivial := map[string]bool{}
	for i, s := range specs {
		got, status, fail := l.evalSpec(s, baseline)
		sum.Evaluations++
		if fail == nil {
			if f2 := l.evalAPI(s, baseline); f2 != nil {
				fail = f2
			}
			sum.Dist["api_workingdir_runs"]++
		}
		_, args := l.args(s)
		id := l.cwd(s.CwdKind) + "\x00" + strings.Join(args, "\x00") + "\x00" + s.CfgName + s.configText()
		distinct[id] = true
		sum.Dist["cwd:"+s.CwdKind]++
		sum.Dist["spelling:"+s.Spelling]++
		sum.Dist[fmt.Sprintf("exit:%d", status)]++
		if s.Mode == 0 {
			unf := 0
			for _, rel := range filesOf(s) {
				unf += len(baseline[rel])
			}
			switch {
			case len(got) == unf:
				sum.Dist["filtered:none"]++
			case len(got) == 0:
				sum.Dist["filtered:all"]++
			default:
				sum.Dist["filtered:some"]++
				nontrivial[id] = true
			}
			if len(s.CLI) > 0 && len(s.Paths) > 0 {
				sum.Dist["patterns:cli+config"]++
			} else if len(s.CLI) > 0 {
				sum.Dist["patterns:cli"]++
			} else if len(s.Paths) > 0 {
				sum.Dist["patterns:config"]++
			} else {
				sum.Dist["patterns:none"]++
			}
		}
		if fail != nil {
			sum.OracleFails = append(sum.OracleFails, fail)
		}
		if fail == nil || fail.Got != nil || s.Mode != 0 {
			term := l.coqCase(s, baseline, msgs, got, status)
			if hx.CoqStrOK(term) {
				fmt.Fprintln(cases, term)
				sb, _ := json.Marshal(map[string]interface{}{"spec": s, "args": args, "cwd": l.cwd(s.CwdKind)})
				fmt.Fprintln(specsOut, string(sb))
			}
		}
		if i >= len(modeSpecs()) && len(sum.Samples) < 3 {
			sum.Samples = append(sum.Samples, map[string]interface{}{"cwd": l.cwd(s.CwdKind), "args": args, "config": s.configText(), "remaining": len(got), "exit": status})
		}
	}
	// nested repositories (oracle only)
	nbase := l.nbaseline()
	nmsgSet := map[string]bool{}
	for _, ds := range nbase {
		for _, d := range ds {
			nmsgSet[d.Msg] = true
		}
	}
	nmsgs := hx.SortedKeys(nmsgSet)
	ncases, err := os.Create(filepath.Join(*out, "cases_nested.txt"))
	must(err)
	defer ncases.Close()
	nspecsOut, err := os.Create(filepath.Join(*out, "specs_nested.jsonl"))
	must(err)
	defer nspecsOut.Close()
	rn := hx.NewRng(*seed + 7777)
	for i := 0; i < *n/3+20; i++ {
		ns := genNested(rn)
		sum.Evaluations++
		sum.Dist["nested_runs"]++
		mixed, firstOuter := false, !ns.Files[0].Inner && !ns.Files[0].Upper
		for _, f := range ns.Files {
			if (f.Inner || f.Upper) == firstOuter {
				mixed = true
			}
		}
		if mixed && firstOuter {
			sum.Dist["nested:outer-file-first"]++
		} else if mixed {
			sum.Dist["nested:inner-file-first"]++
		}
		nf := l.evalNested(ns, nbase)
		if nf != nil {
			sum.OracleFails = append(sum.OracleFails, nf)
		}
		if nf == nil || nf.Got != nil {
			got, status, _, perr := l.nrun(ns)
			if perr == nil {
				if term := l.coqNCase(ns, nbase, nmsgs, got, status); hx.CoqStrOK(term) {
					fmt.Fprintln(ncases, term)
					sb, _ := json.Marshal(map[string]interface{}{"nested_spec": ns, "args": l.nargs(ns), "cwd": l.cwd(ns.CwdKind)})
					fmt.Fprintln(nspecsOut, string(sb))
				}
			}
		}
	}
	l.nwriteCfg(&nspec{})
	sum.Nontrivial = len(nontrivial)
	sum.Extra["distinct_invocations"] = len(distinct)
	sum.Extra["messages"] = msgs
	nb := 0
	for _, ds := range baseline {
		nb += len(ds)
	}
	sum.Extra["unfiltered_diagnostics"] = nb
	sum.Write(filepath.Join(*out, "summary.json"))
}
