// nested.go — C15 stream over NESTED repositories: a second repository (own
// .git, own .github/workflows, own actionlint.yaml) lives inside the scratch
// repository.  The property says "a `paths` entry applies to a file iff its
// glob matches the file's path relative to the root of the repository
// CONTAINING it": each file of a multi-file invocation must be filtered with
// the configuration of its own (nearest) repository and with its path
// relative to that root, whatever the order of the arguments.  Oracle only
// (the Coq model of this property has one root; nearest-root attribution is
// modelled in Multi/Project.v for C10).
package main

import (
	"bytes"
	"fmt"
	"os"
	"path/filepath"
	"regexp"
	"strconv"
	"strings"

	"github.com/bmatcuk/doublestar/v4"
	"github.com/rhysd/actionlint"

	"verifharness/hx"
)

const innerRel = "nested/inner" // root-relative directory of the inner repository

var innerFiles = []string{".github/workflows/e.yml", ".github/workflows/f.yml"}

var innerContent = map[string]string{
	".github/workflows/e.yml": `on: push
jobs:
  inner:
    runs-on: inner-label
    steps:
      - run: echo ${{ unknown_ctx.y }}
      - run: echo ${{ steps.nope.outputs.x }}
`,
	".github/workflows/f.yml": `on: push
jobs:
  other:
    runs-on: other-label
    needs: [ghost]
    steps:
      - run: echo
        shell: fish
`,
}

var nestedGlobPool = []string{
	"**", "**/*.yml", ".github/workflows/*.yml", ".github/workflows/e.yml", ".github/workflows/f.yml", "*.yml",
	"nested/**", "nested/inner/**", "nested/inner/.github/workflows/e.yml", ".github/workflows/a.yml", ".github/**/[ab].yml", "inner/**",
}

var nestedRegexPool = []string{`label`, `undefined`, `is not defined`, `^job `, `shell name`, `.`, `"nope"`, `unknown`, `zzzz_nomatch`, `property`}

type nfile struct {
	Inner bool   `json:"inner"`
	Rel   string `json:"rel"`             // slash path relative to the root of the repository containing it
	Upper bool   `json:"upper,omitempty"` // the repository nested/INNER: its root differs from nested/inner in letter case only
}

type nspec struct {
	CwdKind  string       `json:"cwd_kind"`
	Spelling string       `json:"spelling"`
	Files    []nfile      `json:"files"`
	Outer    []pathsEntry `json:"outer_paths"`
	Inner    []pathsEntry `json:"inner_paths"`
	Upper    []pathsEntry `json:"upper_paths,omitempty"`
	OuterCfg bool         `json:"outer_config"`
	InnerCfg bool         `json:"inner_config"`
	UpperCfg bool         `json:"upper_config,omitempty"`
	CLI      []string     `json:"cli_ignore"`
}

func (l *layout) innerRoot() string { return filepath.Join(l.root, filepath.FromSlash(innerRel)) }
func (l *layout) upperRoot() string { return filepath.Join(l.root, "nested", "INNER") }

func (l *layout) mkInner() {
	for _, d := range []string{".git", ".github/workflows"} {
		hx.Must(os.MkdirAll(filepath.Join(l.innerRoot(), d), 0o755))
	}
	for rel, c := range innerContent {
		hx.Must(os.WriteFile(filepath.Join(l.innerRoot(), rel), []byte(c), 0o644))
	}
	// a sibling repository whose root differs in letter case only (a case-sensitive file system);
	// its .git is a symbolic link to a directory elsewhere (shared git directories, `repo` checkouts)
	hx.Must(os.MkdirAll(filepath.Join(l.upperRoot(), ".github/workflows"), 0o755))
	hx.Must(os.MkdirAll(filepath.Join(l.base, "gitstore"), 0o755))
	hx.Must(os.Symlink(filepath.Join(l.base, "gitstore"), filepath.Join(l.upperRoot(), ".git")))
	for rel, c := range innerContent {
		hx.Must(os.WriteFile(filepath.Join(l.upperRoot(), rel), []byte(c), 0o644))
	}
}

func (l *layout) nabs(f nfile) string {
	if f.Upper {
		return filepath.Join(l.upperRoot(), filepath.FromSlash(f.Rel))
	}
	if f.Inner {
		return filepath.Join(l.innerRoot(), filepath.FromSlash(f.Rel))
	}
	return filepath.Join(l.root, filepath.FromSlash(f.Rel))
}

func cfgText(paths []pathsEntry) string {
	return (&spec{Paths: paths}).configText()
}

func (l *layout) nargs(s *nspec) []string {
	all := []string{"actionlint", "-oneline", "-no-color", "-shellcheck=", "-pyflakes="}
	for _, p := range s.CLI {
		all = append(all, "-ignore", p)
	}
	cwd := l.cwd(s.CwdKind)
	for _, f := range s.Files {
		abs := l.nabs(f)
		r, err := filepath.Rel(cwd, abs)
		must(err)
		switch s.Spelling {
		case "absolute":
			all = append(all, abs)
		case "dot":
			all = append(all, "./"+r)
		default:
			all = append(all, r)
		}
	}
	return all
}

func (l *layout) nwriteCfg(s *nspec) {
	for _, root := range []string{l.root, l.innerRoot(), l.upperRoot()} {
		for _, n := range []string{"actionlint.yaml", "actionlint.yml"} {
			os.Remove(filepath.Join(root, ".github", n))
		}
	}
	if s.OuterCfg {
		must(os.WriteFile(filepath.Join(l.root, ".github", "actionlint.yaml"), []byte(cfgText(s.Outer)), 0o644))
	}
	if s.InnerCfg {
		must(os.WriteFile(filepath.Join(l.innerRoot(), ".github", "actionlint.yaml"), []byte(cfgText(s.Inner)), 0o644))
	}
	if s.UpperCfg {
		must(os.WriteFile(filepath.Join(l.upperRoot(), ".github", "actionlint.yaml"), []byte(cfgText(s.Upper)), 0o644))
	}
}

type ndiag struct {
	File int    `json:"file"` // index into the spec's file list
	Line int    `json:"line"`
	Col  int    `json:"col"`
	Msg  string `json:"msg"`
}

func (l *layout) nrun(s *nspec) ([]ndiag, int, string, error) {
	l.nwriteCfg(s)
	cwd := l.cwd(s.CwdKind)
	must(os.Chdir(cwd))
	var out, errb bytes.Buffer
	cmd := actionlint.Command{Stdin: strings.NewReader(""), Stdout: &out, Stderr: &errb}
	status := cmd.Main(l.nargs(s))
	var ds []ndiag
	for _, ln := range strings.Split(strings.TrimSuffix(out.String(), "\n"), "\n") {
		if ln == "" {
			continue
		}
		m := lineRe.FindStringSubmatch(ln)
		if m == nil {
			return nil, status, out.String(), fmt.Errorf("unparsable line %q", ln)
		}
		p := m[1]
		if !filepath.IsAbs(p) {
			p = filepath.Join(cwd, p)
		}
		p = filepath.Clean(p)
		fi := -1
		for i, f := range s.Files {
			if p == l.nabs(f) {
				fi = i
			}
		}
		if fi < 0 {
			return nil, status, out.String(), fmt.Errorf("line %q names a file that was not given: %q", ln, p)
		}
		li, _ := strconv.Atoi(m[2])
		co, _ := strconv.Atoi(m[3])
		ds = append(ds, ndiag{fi, li, co, m[4]})
	}
	return ds, status, out.String(), nil
}

// nexpected: the property's reference, per file with the configuration of the
// repository containing it.
func (l *layout) nexpected(s *nspec, base map[nfile][]ndiag) ([]ndiag, int) {
	var want []ndiag
	for i, f := range s.Files {
		paths, has := s.Outer, s.OuterCfg
		if f.Upper {
			paths, has = s.Upper, s.UpperCfg
		} else if f.Inner {
			paths, has = s.Inner, s.InnerCfg
		}
		for _, d := range base[f] {
			ign := false
			for _, p := range s.CLI {
				if regexp.MustCompile(p).MatchString(d.Msg) {
					ign = true
				}
			}
			if has {
				for _, pe := range paths {
					if ok, err := doublestar.Match(pe.Glob, f.Rel); err != nil || !ok {
						continue
					}
					for _, p := range pe.Ignore {
						if regexp.MustCompile(p).MatchString(d.Msg) {
							ign = true
						}
					}
				}
			}
			if !ign {
				want = append(want, ndiag{i, d.Line, d.Col, d.Msg})
			}
		}
	}
	if len(want) > 0 {
		return want, 1
	}
	return want, 0
}

type nfailure struct {
	What   string   `json:"what"`
	Key    string   `json:"key"`
	Nested *nspec   `json:"nested_spec"`
	Args   []string `json:"args"`
	Cwd    string   `json:"cwd"`
	OuterC string   `json:"outer_config"`
	InnerC string   `json:"inner_config"`
	Got    []ndiag  `json:"got"`
	Want   []ndiag  `json:"want"`
	GotEx  int      `json:"got_exit"`
	WantEx int      `json:"want_exit"`
	Stdout string   `json:"stdout"`
}

func (l *layout) nbaseline() map[nfile][]ndiag {
	base := map[nfile][]ndiag{}
	var all []nfile
	for _, f := range wfFiles {
		all = append(all, nfile{Rel: f})
	}
	for _, f := range innerFiles {
		all = append(all, nfile{Inner: true, Rel: f}, nfile{Rel: f, Upper: true})
	}
	for _, f := range all {
		s := &nspec{CwdKind: "unrelated", Spelling: "absolute", Files: []nfile{f}}
		ds, _, _, err := l.nrun(s)
		must(err)
		base[f] = ds
	}
	return base
}

func (l *layout) evalNested(s *nspec, base map[nfile][]ndiag) *nfailure {
	got, status, stdout, err := l.nrun(s)
	want, wantEx := l.nexpected(s, base)
	order := ""
	for _, f := range s.Files {
		if f.Upper {
			order += "u"
		} else if f.Inner {
			order += "i"
		} else {
			order += "o"
		}
	}
	mk := func(what, class string) *nfailure {
		return &nfailure{What: what, Key: fmt.Sprintf("c15:nested-%s:order=%s:cwd=%s", class, order, s.CwdKind), Nested: s, Args: l.nargs(s), Cwd: l.cwd(s.CwdKind),
			OuterC: cfgText(s.Outer), InnerC: cfgText(s.Inner), Got: got, Want: want, GotEx: status, WantEx: wantEx, Stdout: stdout}
	}
	if err != nil {
		return mk("stdout cannot be mapped back to the given files: "+err.Error(), "parse")
	}
	same := len(got) == len(want)
	for i := 0; same && i < len(got); i++ {
		same = got[i] == want[i]
	}
	if !same {
		return mk("nested repositories: output differs from the unfiltered list minus the diagnostics matched by a pattern of the configuration of the repository CONTAINING each file (glob against the path relative to that root)", "filter")
	}
	if status != wantEx {
		return mk(fmt.Sprintf("nested repositories: exit status %d with %d remaining diagnostics", status, len(got)), "exit")
	}
	return nil
}

func genNested(r *hx.Rng) *nspec {
	s := &nspec{CwdKind: r.Pick([]string{"root", "parent", "nested", "unrelated", "grandparent"}), Spelling: r.Pick([]string{"relative", "dot", "absolute"})}
	var pool []nfile
	for _, f := range wfFiles[:2] {
		pool = append(pool, nfile{Rel: f})
	}
	for _, f := range innerFiles {
		pool = append(pool, nfile{Inner: true, Rel: f}, nfile{Rel: f, Upper: true})
	}
	perm := r.Perm(len(pool))
	n := 2 + r.Intn(3)
	for i := 0; i < n && i < len(pool); i++ {
		s.Files = append(s.Files, pool[perm[i]])
	}
	gen := func() []pathsEntry {
		var ps []pathsEntry
		k := 1 + r.Intn(2)
		gp := r.Perm(len(nestedGlobPool)) // distinct globs: a repeated key is a configuration error
		for i := 0; i < k; i++ {
			pe := pathsEntry{Glob: nestedGlobPool[gp[i]]}
			m := 1 + r.Intn(2)
			for j := 0; j < m; j++ {
				pe.Ignore = append(pe.Ignore, r.Pick(nestedRegexPool))
			}
			ps = append(ps, pe)
		}
		return ps
	}
	s.OuterCfg = r.Chance(3, 4)
	s.InnerCfg = r.Chance(3, 4)
	if s.OuterCfg {
		s.Outer = gen()
	}
	if s.InnerCfg {
		s.Inner = gen()
	}
	s.UpperCfg = r.Chance(3, 4)
	if s.UpperCfg {
		s.Upper = gen()
	}
	if r.Chance(1, 5) {
		s.CLI = []string{r.Pick(nestedRegexPool)}
	}
	return s
}

// ---- Coq case of a nested-repository run ------------------------------------------

// coqNCase: the run as input of the model (Out/C15Obs.v run_c15n): repositories with their
// `paths` sections (glob ids are global: outer 0.., inner 100..), regexp answers as message-id
// lists, doublestar answers for every path string the model may ask about.
func (l *layout) coqNCase(s *nspec, base map[nfile][]ndiag, msgs []string, got []ndiag, status int) string {
	mid := func(m string) int {
		for i, x := range msgs {
			if x == m {
				return i
			}
		}
		return 9998
	}
	cwd := l.cwd(s.CwdKind)
	args := l.nargs(s)
	fileArgs := args[len(args)-len(s.Files):]
	var fruns []string
	var cands []string
	for i, f := range s.Files {
		var es []string
		for _, d := range base[f] {
			es = append(es, fmt.Sprintf("(%s,%s,%s)", hx.CoqN(d.Line), hx.CoqN(d.Col), hx.CoqN(mid(d.Msg))))
		}
		fruns = append(fruns, fmt.Sprintf("mkFrun %s %s", hx.CoqStr(fileArgs[i]), hx.CoqList(es)))
		abs := l.nabs(f)
		for _, root := range []string{l.root, l.innerRoot(), l.upperRoot(), cwd} {
			if r, err := filepath.Rel(root, abs); err == nil {
				cands = append(cands, filepath.ToSlash(r))
			}
		}
		cands = append(cands, abs, fileArgs[i], f.Rel)
	}
	var glob []string
	seen := map[string]bool{}
	section := func(paths []pathsEntry, has bool, off int) string {
		if !has {
			return "None"
		}
		var es []string
		for gi, pe := range paths {
			var pats []string
			for _, p := range pe.Ignore {
				pats = append(pats, coqNList(matchIDs(p, msgs)))
			}
			es = append(es, fmt.Sprintf("(%s, %s)", hx.CoqN(off+gi), hx.CoqList(pats)))
			for _, c := range cands {
				k := fmt.Sprintf("%d\x00%s", off+gi, c)
				if seen[k] {
					continue
				}
				seen[k] = true
				glob = append(glob, fmt.Sprintf("(%s, %s, %s)", hx.CoqN(off+gi), hx.CoqStr(c), hx.CoqBool(doublestar.MatchUnvalidated(pe.Glob, c))))
			}
		}
		return "(Some " + hx.CoqList(es) + ")"
	}
	repos := []string{
		fmt.Sprintf("(%s, %s)", hx.CoqStr(l.root), section(s.Outer, s.OuterCfg, 0)),
		fmt.Sprintf("(%s, %s)", hx.CoqStr(l.innerRoot()), section(s.Inner, s.InnerCfg, 100)),
		fmt.Sprintf("(%s, %s)", hx.CoqStr(l.upperRoot()), section(s.Upper, s.UpperCfg, 200)),
	}
	var cli []string
	for _, p := range s.CLI {
		cli = append(cli, coqNList(matchIDs(p, msgs)))
	}
	var obs []string
	for _, d := range got {
		obs = append(obs, coqNList([]int{d.File, d.Line, d.Col, mid(d.Msg)}))
	}
	obs = append(obs, coqNList([]int{1000, status}))
	return fmt.Sprintf("(mkNIn %s %s %s %s %s, %s)", hx.CoqStr(cwd), hx.CoqList(repos), hx.CoqList(fruns), hx.CoqList(cli), hx.CoqList(glob), hx.CoqList(obs))
}
