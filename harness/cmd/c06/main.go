// Command c06: correspondence and oracle harness for property C06 (unknown
// `any` types never cause a diagnostic) and for the shared model of the
// expression type system / semantic checker (coq/Expr/Types.v, Sema.v).
//
// It generates typing environments (types for matrix, steps, needs, secrets,
// inputs, dispatch inputs, jobs set through the exported Update* methods) and
// grammar-directed expressions, runs ExprSemanticsChecker.Check, dumps
// (environment, parsed tree, JSON oracle) as a Coq term together with the
// observable (diagnostic positions + classes in order, result type), and
// evaluates the property itself on the implementation: for every accepted
// (env, e) and every single-point loosening env' of env, Check under env' must
// report nothing and give a looser result type.
package main

import (
	"encoding/json"
	"flag"
	"fmt"
	"os"
	"path/filepath"
	"sort"
	"strings"

	"github.com/rhysd/actionlint"

	"verifharness/hx"
)

// ---- diagnostic classes (by message text; the table is part of the harness) --

var classTable = []struct {
	code int
	sub  string
}{
	{1, "undefined variable "},
	{2, " is not allowed here. "}, // context availability; refined below
	{5, "as element of filtered array"},
	{4, "is not defined in object type"},
	{6, "receiver of object dereference "},
	{7, "property filtered by "},
	{8, "elements of object at receiver of object filtering"},
	{9, "cannot be filtered by object filtering"},
	{10, "receiver of object filtering `.*` must be"},
	{11, "index access of array must be type of number"},
	{12, "property access of object must be type of string"},
	{13, "index access operand must be type of object or array"},
	{14, "number of arguments is wrong"},
	{15, "argument of function call is not assignable"},
	{16, "undefined function "},
	{17, "type of operand of ! operator"},
	{18, "value cannot be compared to"},
	{19, "does not contain placeholder"},
	{20, "contains placeholder"},
	{21, "broken JSON string is passed to fromJSON()"},
	{22, "must not start with the GITHUB_ prefix"},
	{23, "can only contain alphabets, decimal numbers"},
	{24, "no configuration variable is allowed"},
	{25, "undefined configuration variable"},
}

var classNames = map[int]string{1: "undefined-variable", 2: "context-not-allowed", 3: "function-not-allowed", 4: "property-undefined", 5: "property-undefined-filtered",
	6: "deref-receiver", 7: "filter-element", 8: "filter-map-element", 9: "filter-no-object", 10: "filter-receiver", 11: "index-array", 12: "index-object",
	13: "index-operand", 14: "arity", 15: "not-assignable", 16: "undefined-function", 17: "not-operand", 18: "compare", 19: "format-missing", 20: "format-unused",
	21: "broken-json", 22: "config-prefix", 23: "config-chars", 24: "config-empty", 25: "config-undefined", 0: "unclassified"}

func classOf(msg string) int {
	if strings.HasPrefix(msg, "calling function ") && strings.Contains(msg, " is not allowed here. ") {
		return 3
	}
	if strings.HasPrefix(msg, "format string ") {
		if strings.Contains(msg, "does not contain placeholder") {
			return 19
		}
		return 20
	}
	for _, c := range classTable {
		if strings.Contains(msg, c.sub) {
			return c.code
		}
	}
	return 0
}

type diag struct{ Line, Col, Class int }

// ---- running the implementation ---------------------------------------------

var allContexts []string
var allSpecial []string

type override struct {
	slot    string // slot loosened (T in slotT), or
	builtin string // builtin variable replaced by builtinT, or
	fn      string // function whose results are typed any
	t       *T
	what    string
}

type result struct {
	ty      *T
	diags   []diag
	msgs    []string
	tainted bool // the checker flipped a Deref flag inside the environment (defect #10)
}

func runImpl(env *genv, node actionlint.ExprNode, ov *override) result {
	var restore []func()
	defer func() {
		for _, f := range restore {
			f()
		}
	}()
	if ov != nil && ov.builtin != "" {
		old := actionlint.BuiltinGlobalVariableTypes[ov.builtin]
		actionlint.BuiltinGlobalVariableTypes[ov.builtin] = ov.t.toAL()
		restore = append(restore, func() { actionlint.BuiltinGlobalVariableTypes[ov.builtin] = old })
	}
	if ov != nil && ov.fn != "" {
		for _, sig := range actionlint.BuiltinFuncSignatures[ov.fn] {
			sig, old := sig, sig.Ret
			sig.Ret = actionlint.AnyType{}
			restore = append(restore, func() { sig.Ret = old })
		}
	}
	var cfg []string
	if env.HasCfg {
		cfg = append([]string{}, env.Config...)
	}
	c := actionlint.NewExprSemanticsChecker(false, cfg)
	c.SetContextAvailability(allContexts)
	c.SetSpecialFunctionAvailability(allSpecial)
	built := map[string]*actionlint.ObjectType{}
	used := map[string]*T{}
	for _, s := range slotNames {
		t, ok := env.Slots[s]
		if ov != nil && ov.slot == s {
			t, ok = ov.t, true
		}
		if !ok {
			continue
		}
		o := t.toALObj()
		built[s], used[s] = o, t
		switch s {
		case "matrix":
			c.UpdateMatrix(o)
		case "steps":
			c.UpdateSteps(o)
		case "needs":
			c.UpdateNeeds(o)
		case "secrets":
			c.UpdateSecrets(o)
		case "inputs":
			c.UpdateInputs(o)
		case "dispatch":
			c.UpdateDispatchInputs(o)
		case "jobs":
			c.UpdateJobs(o)
		}
	}
	ty, errs := c.Check(node)
	r := result{ty: fromAL(ty)}
	for _, e := range errs {
		r.diags = append(r.diags, diag{e.Line, e.Column, classOf(e.Message)})
		r.msgs = append(r.msgs, e.Message)
	}
	for s, o := range built {
		if !sameDeref(used[s], o) {
			r.tainted = true
		}
	}
	return r
}

func parse(src string) (actionlint.ExprNode, error) {
	p := actionlint.NewExprParser()
	n, err := p.Parse(actionlint.NewExprLexer(src + "}}"))
	if err != nil {
		return nil, err
	}
	return n, nil
}

// ---- the `looser` relation of the property, on harness types -------------------

func looser(a, b *T) bool {
	if b.K == kAny {
		return true
	}
	if a.K != b.K {
		return false
	}
	switch a.K {
	case kObj:
		if len(a.Keys) != len(b.Keys) {
			return false
		}
		for i, k := range a.Keys {
			if b.Keys[i] != k || !looser(a.Vals[i], b.Vals[i]) {
				return false
			}
		}
		switch {
		case a.Mapped == nil && b.Mapped == nil:
			return true
		case a.Mapped == nil:
			return b.Mapped.K == kAny
		case b.Mapped == nil:
			return false
		default:
			return looser(a.Mapped, b.Mapped)
		}
	case kArr:
		return (!a.Deref || b.Deref) && looser(a.Elem, b.Elem)
	}
	return true
}

// ---- dumping to Coq ----------------------------------------------------------

type stats struct {
	nodes map[string]int
	funcs map[string]int
}

func coqTok(t *actionlint.Token) string {
	return fmt.Sprintf("(P %d %d %d)", t.Offset, t.Line, t.Column)
}

func coqExpr(n actionlint.ExprNode, st *stats) string {
	switch n := n.(type) {
	case *actionlint.VariableNode:
		st.nodes["var"]++
		return "(EVar " + coqTok(n.Token()) + " " + hx.CoqStr(n.Name) + ")"
	case *actionlint.NullNode:
		st.nodes["null"]++
		return "(ENull " + coqTok(n.Token()) + ")"
	case *actionlint.BoolNode:
		st.nodes["bool"]++
		return "(EBool " + coqTok(n.Token()) + " " + hx.CoqBool(n.Value) + ")"
	case *actionlint.IntNode:
		st.nodes["int"]++
		return fmt.Sprintf("(EInt %s (%d))", coqTok(n.Token()), n.Value)
	case *actionlint.FloatNode:
		st.nodes["float"]++
		return "(EFloat " + coqTok(n.Token()) + " " + hx.CoqStr(n.Token().Value) + ")"
	case *actionlint.StringNode:
		st.nodes["string"]++
		return "(EStr " + coqTok(n.Token()) + " " + hx.CoqStr(n.Value) + ")"
	case *actionlint.ObjectDerefNode:
		st.nodes["deref"]++
		return "(EDeref " + coqExpr(n.Receiver, st) + " " + hx.CoqStr(n.Property) + ")"
	case *actionlint.ArrayDerefNode:
		st.nodes["arrderef"]++
		return "(EArrDeref " + coqExpr(n.Receiver, st) + ")"
	case *actionlint.IndexAccessNode:
		st.nodes["index"]++
		return "(EIndex " + coqExpr(n.Operand, st) + " " + coqExpr(n.Index, st) + ")"
	case *actionlint.NotOpNode:
		st.nodes["not"]++
		return "(ENot " + coqTok(n.Token()) + " " + coqExpr(n.Operand, st) + ")"
	case *actionlint.CompareOpNode:
		st.nodes["compare"]++
		op := map[actionlint.CompareOpNodeKind]string{actionlint.CompareOpNodeKindLess: "CLess", actionlint.CompareOpNodeKindLessEq: "CLessEq",
			actionlint.CompareOpNodeKindGreater: "CGreater", actionlint.CompareOpNodeKindGreaterEq: "CGreaterEq",
			actionlint.CompareOpNodeKindEq: "CEq", actionlint.CompareOpNodeKindNotEq: "CNotEq"}[n.Kind]
		return "(ECmp " + op + " " + coqExpr(n.Left, st) + " " + coqExpr(n.Right, st) + ")"
	case *actionlint.LogicalOpNode:
		st.nodes["logical"]++
		op := "LAnd"
		if n.Kind == actionlint.LogicalOpNodeKindOr {
			op = "LOr"
		}
		return "(ELog " + op + " " + coqExpr(n.Left, st) + " " + coqExpr(n.Right, st) + ")"
	case *actionlint.FuncCallNode:
		st.nodes["call"]++
		st.funcs[strings.ToLower(n.Callee)]++
		as := make([]string, len(n.Args))
		for i, a := range n.Args {
			as[i] = coqExpr(a, st)
		}
		return "(ECall " + coqTok(n.Token()) + " " + hx.CoqStr(n.Callee) + " " + hx.CoqList(as) + ")"
	}
	panic(fmt.Sprintf("unknown node %T", n))
}

func coqJSON(v interface{}) string {
	switch v := v.(type) {
	case nil:
		return "JNull"
	case bool:
		return "JBool"
	case float64:
		return "JNum"
	case string:
		return "JStr"
	case []interface{}:
		es := make([]string, len(v))
		for i, e := range v {
			es[i] = coqJSON(e)
		}
		return "(JArr " + hx.CoqList(es) + ")"
	case map[string]interface{}:
		var es []string
		for _, k := range hx.SortedKeys(v) {
			es = append(es, "("+hx.CoqStr(k)+","+coqJSON(v[k])+")")
		}
		return "(JObj " + hx.CoqList(es) + ")"
	}
	panic("json")
}

// jsonOracle: the behaviour of encoding/json on every literal first argument of fromJSON.
func jsonOracle(n actionlint.ExprNode) string {
	seen := map[string]bool{}
	var out []string
	actionlint.VisitExprNode(n, func(node, _ actionlint.ExprNode, entering bool) {
		if !entering {
			return
		}
		c, ok := node.(*actionlint.FuncCallNode)
		if !ok || strings.ToLower(c.Callee) != "fromjson" || len(c.Args) == 0 {
			return
		}
		lit, ok := c.Args[0].(*actionlint.StringNode)
		if !ok || seen[lit.Value] {
			return
		}
		seen[lit.Value] = true
		var v interface{}
		err := json.Unmarshal([]byte(lit.Value), &v)
		r := ""
		if err == nil {
			r = "(JOk " + coqJSON(v) + ")"
		} else if _, ok := err.(*json.SyntaxError); ok {
			r = "JSyntaxErr"
		} else {
			r = "JOtherErr"
		}
		out = append(out, "("+hx.CoqStr(lit.Value)+","+r+")")
	})
	return hx.CoqList(out)
}

func coqUpdates(env *genv, ov *override) string {
	var us []string
	for _, s := range slotNames {
		t, ok := env.Slots[s]
		if ov != nil && ov.slot == s {
			t, ok = ov.t, true
		}
		if !ok {
			continue
		}
		us = append(us, "(U"+strings.ToUpper(s[:1])+s[1:]+" "+t.coq()+")")
	}
	return hx.CoqList(us)
}

func coqCase(env *genv, ov *override, node actionlint.ExprNode, r result, st *stats) string {
	cfg := "None"
	if env.HasCfg {
		cs := make([]string, len(env.Config))
		for i, c := range env.Config {
			cs[i] = hx.CoqStr(c)
		}
		cfg = "(Some " + hx.CoqList(cs) + ")"
	}
	ds := make([]string, len(r.diags))
	for i, d := range r.diags {
		ds[i] = fmt.Sprintf("D %d %d %d", d.Line, d.Col, d.Class)
	}
	return "((KC " + coqUpdates(env, ov) + " " + cfg + " " + jsonOracle(node) + " " + coqExpr(node, st) + ", " + r.ty.coq() + "), " + hx.CoqList(ds) + ")"
}

// ---- generated tables (coq/Gen/GenFuncs.v) -------------------------------------

func dumpGen(path string) {
	var b strings.Builder
	b.WriteString("(* Gen/GenFuncs.v — GENERATED by harness/cmd/c06 -gen from /repo's exported tables\n   BuiltinFuncSignatures, BuiltinGlobalVariableTypes, SpecialFunctionNames.  Do not edit. *)\n")
	b.WriteString("From AL Require Import Expr.Types.\n\n")
	b.WriteString("Definition builtin_funcs : list (string * list fsig) := [\n")
	var fs []string
	for _, k := range hx.SortedKeys(actionlint.BuiltinFuncSignatures) {
		var sigs []string
		for _, s := range actionlint.BuiltinFuncSignatures[k] {
			ps := make([]string, len(s.Params))
			for i, p := range s.Params {
				ps[i] = fromAL(p).coq()
			}
			sigs = append(sigs, "FSig "+hx.CoqStr(s.Name)+" "+fromAL(s.Ret).coq()+" "+hx.CoqList(ps)+" "+hx.CoqBool(s.VariableLengthParams))
		}
		fs = append(fs, "  ("+hx.CoqStr(k)+", "+hx.CoqList(sigs)+")")
	}
	b.WriteString(strings.Join(fs, ";\n") + "\n].\n\n")
	b.WriteString("Definition builtin_vars : list (string * ty) := [\n")
	var vs []string
	for _, k := range hx.SortedKeys(actionlint.BuiltinGlobalVariableTypes) {
		vs = append(vs, "  ("+hx.CoqStr(k)+", "+fromAL(actionlint.BuiltinGlobalVariableTypes[k]).coq()+")")
	}
	b.WriteString(strings.Join(vs, ";\n") + "\n].\n\n")
	sp := make([]string, 0)
	for _, k := range hx.SortedKeys(actionlint.SpecialFunctionNames) {
		sp = append(sp, hx.CoqStr(k))
	}
	b.WriteString("Definition special_funcs : list string := " + hx.CoqList(sp) + ".\n")
	hx.Must(os.WriteFile(path, []byte(b.String()), 0o644))
}

// ---- main loop -------------------------------------------------------------------

// effective environment as the generator sees it (names to draw from)
func effective(env *genv) map[string]*T {
	vars := map[string]*T{}
	for k, v := range actionlint.BuiltinGlobalVariableTypes {
		vars[k] = fromAL(v)
	}
	for s, t := range env.Slots {
		switch s {
		case "dispatch":
			if _, ok := env.Slots["inputs"]; !ok {
				vars["inputs"] = t
			}
		case "secrets":
			c := strictObj("github_token", tStr, "actions_step_debug", tStr, "actions_runner_debug", tStr)
			for i, k := range t.Keys {
				if c.prop(k) == nil {
					c.Keys = append(c.Keys, k)
					c.Vals = append(c.Vals, t.Vals[i])
				}
			}
			c.sortProps()
			vars[s] = c
		default:
			vars[s] = t
		}
	}
	return vars
}

func topVars(n actionlint.ExprNode) (vars []string, fns []string) {
	sv, sf := map[string]bool{}, map[string]bool{}
	actionlint.VisitExprNode(n, func(node, _ actionlint.ExprNode, entering bool) {
		if !entering {
			return
		}
		switch x := node.(type) {
		case *actionlint.VariableNode:
			sv[x.Name] = true
		case *actionlint.FuncCallNode:
			sf[strings.ToLower(x.Callee)] = true
		}
	})
	vars, fns = hx.SortedKeys(sv), hx.SortedKeys(sf)
	return
}

type replayCase struct {
	Src     string        `json:"expr"`
	Slots   map[string]*T `json:"slots"`
	HasCfg  bool          `json:"has_config"`
	Config  []string      `json:"config"`
	Loosen  string        `json:"loosening"`
	OvSlot  string        `json:"loosened_slot,omitempty"`
	OvVar   string        `json:"loosened_builtin,omitempty"`
	OvFn    string        `json:"loosened_function,omitempty"`
	OvT     *T            `json:"loosened_type,omitempty"`
	Before  []string      `json:"diagnostics_before"`
	After   []string      `json:"diagnostics_after"`
	TyFrom  string        `json:"type_before"`
	TyTo    string        `json:"type_after"`
}

func overrides(r *hx.Rng, env *genv, node actionlint.ExprNode) []*override {
	var out []*override
	for _, s := range slotNames {
		if t, ok := env.Slots[s]; ok {
			for _, l := range t.loosenings(s) {
				if l.t.K != kObj {
					continue // the Update* API takes object types only: a slot cannot be typed `any` as a whole
				}
				out = append(out, &override{slot: s, t: l.t, what: l.what})
			}
		}
	}
	vars, fns := topVars(node)
	for _, v := range vars {
		if _, isSlot := env.Slots[v]; isSlot {
			continue
		}
		if v == "inputs" {
			if _, d := env.Slots["dispatch"]; d {
				continue
			}
		}
		b, ok := actionlint.BuiltinGlobalVariableTypes[v]
		if !ok {
			continue
		}
		ls := fromAL(b).loosenings(v)
		if len(ls) > 8 { // whole-variable loosenings first, then a seeded sample of the inner ones
			keep := ls[:2]
			p := r.Perm(len(ls) - 2)
			for _, i := range p[:6] {
				keep = append(keep, ls[2+i])
			}
			ls = keep
		}
		for _, l := range ls {
			if _, d := env.Slots["dispatch"]; d && v == "github" {
				// UpdateDispatchInputs stores into github.event.inputs and needs both to be objects
				if ev := l.t.prop("event"); l.t.K != kObj || ev == nil || ev.K != kObj {
					continue
				}
			}
			out = append(out, &override{builtin: v, t: l.t, what: "builtin " + l.what})
		}
	}
	for _, f := range fns {
		if _, ok := actionlint.BuiltinFuncSignatures[f]; ok {
			out = append(out, &override{fn: f, what: "result of " + f + "()->any"})
		}
	}
	return out
}

func main() {
	seed := flag.Int("seed", 1, "seed")
	n := flag.Int("n", 1500, "number of (env, expr) pairs dumped for the correspondence check")
	out := flag.String("out", ".", "output directory")
	replay := flag.String("replay", "", "replay file")
	tier := flag.String("tier", "quick", "quick|thorough")
	gen := flag.String("gen", "", "write coq/Gen/GenFuncs.v to this path and exit")
	oracleN := flag.Int("oracle-n", 0, "number of additional (env, expr) pairs for the oracle only")
	flag.Parse()
	_ = tier

	allContexts = append(hx.SortedKeys(actionlint.BuiltinGlobalVariableTypes), "jobs")
	sort.Strings(allContexts)
	allSpecial = hx.SortedKeys(actionlint.SpecialFunctionNames)

	if *gen != "" {
		dumpGen(*gen)
		return
	}
	if *replay != "" {
		os.Exit(doReplay(*replay))
	}

	// hx.NewRng(k+1) is hx.NewRng(k) shifted by one draw; spread the seeds so that runs with
	// neighbouring seeds explore different inputs
	r := hx.NewRng(uint64(*seed)*0x2545F4914F6CDD1D + 0x9E3779B9)
	sum := hx.NewSummary("C06")
	sum.Rule = "K: model check (coq/Expr/Sema.v) vs ExprSemanticsChecker.Check on (env, expr): ordered (line, col, class) + result type; oracle: accepted under env => accepted under every single-point loosening, with a looser result type"
	st := &stats{nodes: map[string]int{}, funcs: map[string]int{}}
	cases, err := os.Create(filepath.Join(*out, "cases.txt"))
	hx.Must(err)
	defer cases.Close()
	srcs, err := os.Create(filepath.Join(*out, "sources.jsonl"))
	hx.Must(err)
	defer srcs.Close()

	distinct := map[string]bool{}
	emitted, total := 0, *n+*oracleN
	pairs, accepted, loosenedRuns, tainted, parseErr := 0, 0, 0, 0, 0
	emit := func(env *genv, ov *override, node actionlint.ExprNode, res result, src string) {
		if emitted >= *n {
			return
		}
		if res.tainted {
			return
		}
		fmt.Fprintln(cases, coqCase(env, ov, node, res, st))
		what := ""
		if ov != nil {
			what = ov.what
		}
		b, _ := json.Marshal(map[string]interface{}{"expr": src, "slots": env.Slots, "loosening": what, "config": env.Config, "has_config": env.HasCfg, "diags": res.diags, "msgs": res.msgs, "type": res.ty.String()})
		fmt.Fprintln(srcs, string(b))
		emitted++
	}
	// corpus first: minimised inputs of the defects found so far
	corpus := []struct {
		slots map[string]*T
		src   string
	}{
		{map[string]*T{"matrix": strictObj("a", strictObj("x", tStr))}, "matrix.*"},
		{map[string]*T{"matrix": strictObj("a", strictObj("x", tStr), "b", tNum)}, "join(matrix.*.x)"},
		{map[string]*T{"matrix": strictObj("x", &T{K: kArr, Elem: tNum})}, "(matrix.x || github.event.*).foo"},
		{map[string]*T{"matrix": strictObj("x", &T{K: kArr, Elem: tNum})}, "matrix.x && github.event.*"},
		{map[string]*T{"needs": strictObj("build", strictObj("outputs", strictObj("v", tStr), "result", tStr))}, "needs.*.result"},
	}
	// every pair of operand types from a pool (scalars, arrays of scalars / of any / of arrays / of
	// objects, closed and open objects) x comparison operators: `matrix.l OP matrix.r`
	{
		arr := func(e *T) *T { return &T{K: kArr, Elem: e} }
		open := strictObj("name", tStr)
		open.Mapped = tAny
		pool := []*T{tStr, tNum, tBool, tNull, tAny, arr(tStr), arr(tNum), arr(tAny), arr(arr(tStr)), arr(strictObj("name", tStr)), strictObj("name", tStr), open}
		for _, l := range pool {
			for _, rr := range pool {
				for _, op := range []string{"==", "!=", "<"} {
					corpus = append(corpus, struct {
						slots map[string]*T
						src   string
					}{map[string]*T{"matrix": strictObj("l", l, "r", rr)}, "matrix.l " + op + " matrix.r"})
				}
			}
		}
		sum.Dist["corpus_pairs"] = len(corpus)
	}
	ci := 0
	for pairs < total {
		env := genEnv(r)
		fixed := ""
		if ci < len(corpus) {
			env = &genv{Slots: corpus[ci].slots}
			fixed = corpus[ci].src
			ci++
		}
		g := &egen{r: r, vars: effective(env)}
		g.names = hx.SortedKeys(g.vars)
		// bias towards the contextual variables
		for s := range env.Slots {
			if s == "dispatch" {
				s = "inputs"
			}
			g.names = append(g.names, s, s)
		}
		sort.Strings(g.names)
		for j := 0; j < 5 && pairs < total; j++ {
			src := g.expr(1 + r.Intn(5))
			if fixed != "" {
				if j > 0 {
					break
				}
				src = fixed
			}
			node, perr := parse(src)
			if perr != nil {
				parseErr++
				continue
			}
			pairs++
			res := runImpl(env, node, nil)
			if res.tainted {
				tainted++
			}
			for _, d := range res.diags {
				sum.Dist["class:"+classNames[d.Class]]++
			}
			sig := fmt.Sprint(res.ty.String(), res.diags)
			if !distinct[sig] {
				distinct[sig] = true
				if len(sum.Samples) < 12 {
					sum.Samples = append(sum.Samples, map[string]interface{}{"expr": src, "type": res.ty.String(), "diags": res.diags})
				}
			}
			emit(env, nil, node, res, src)
			ovs := overrides(r, env, node)
			kpick := map[int]bool{}
			if len(ovs) > 0 && emitted < *n { // two of the loosened environments also go to the correspondence check
				kpick[r.Intn(len(ovs))] = true
				kpick[r.Intn(len(ovs))] = true
			}
			if len(res.diags) == 0 {
				accepted++
				sum.Dist["accepted"]++
			} else {
				sum.Dist["rejected"]++
			}
			for i, ov := range ovs {
				if len(res.diags) != 0 && !kpick[i] {
					continue
				}
				res2 := runImpl(env, node, ov)
				if kpick[i] && ov.builtin == "" && ov.fn == "" {
					emit(env, ov, node, res2, src)
				}
				if len(res.diags) != 0 {
					continue
				}
				loosenedRuns++
				bad := ""
				if len(res2.diags) != 0 {
					bad = "diagnostic introduced by loosening: " + classNames[res2.diags[0].Class]
				} else if !looser(res.ty, res2.ty) {
					bad = "result type under the loosened environment is not looser"
				}
				if bad != "" {
					rc := replayCase{Src: src, Slots: env.Slots, HasCfg: env.HasCfg, Config: env.Config, Loosen: ov.what, OvSlot: ov.slot, OvVar: ov.builtin, OvFn: ov.fn, OvT: ov.t,
						Before: res.msgs, After: res2.msgs, TyFrom: res.ty.String(), TyTo: res2.ty.String()}
					key := fmt.Sprintf("%s | expr=%s | loosen=%s", bad, src, ov.what)
					sum.OracleFails = append(sum.OracleFails, map[string]interface{}{"what": bad, "key": key, "replay_case": rc})
				}
			}
		}
	}
	for k, v := range st.nodes {
		sum.Dist["node:"+k] = v
	}
	for k, v := range st.funcs {
		sum.Dist["func:"+k] = v
	}
	sum.Dist["pairs"] = pairs
	sum.Dist["parse_errors_skipped"] = parseErr
	sum.Dist["tainted_by_deref_mutation_not_compared"] = tainted
	sum.Dist["loosened_runs"] = loosenedRuns
	sum.Evaluations = pairs + loosenedRuns
	sum.Nontrivial = len(distinct)
	sum.Extra["k_cases"] = emitted
	sum.Extra["accepted_pairs"] = accepted
	if len(sum.OracleFails) > 50 {
		sum.Extra["oracle_failures_total"] = len(sum.OracleFails)
		sum.OracleFails = sum.OracleFails[:50]
	}
	sum.Write(filepath.Join(*out, "summary.json"))
}

func doReplay(path string) int {
	b, err := os.ReadFile(path)
	hx.Must(err)
	var f struct {
		RC *replayCase `json:"replay_case"`
	}
	hx.Must(json.Unmarshal(b, &f))
	if f.RC == nil {
		fmt.Println("replay file has no replay_case (a broken proof obligation / correspondence has no concrete failing input); see its 'broken' field")
		return 1
	}
	rc := f.RC
	env := &genv{Slots: rc.Slots, HasCfg: rc.HasCfg, Config: rc.Config}
	node, perr := parse(rc.Src)
	if perr != nil {
		fmt.Println("parse error:", perr)
		return 2
	}
	ov := &override{slot: rc.OvSlot, builtin: rc.OvVar, fn: rc.OvFn, t: rc.OvT, what: rc.Loosen}
	r1, r2 := runImpl(env, node, nil), runImpl(env, node, ov)
	fmt.Printf("expression: %s\n", rc.Src)
	for _, s := range slotNames {
		if t, ok := env.Slots[s]; ok {
			fmt.Printf("  %s : %s\n", s, t)
		}
	}
	fmt.Printf("precise environment: type %s, diagnostics %q\n", r1.ty, r1.msgs)
	fmt.Printf("loosening: %s\n", rc.Loosen)
	fmt.Printf("loosened environment: type %s, diagnostics %q\n", r2.ty, r2.msgs)
	if len(r1.diags) == 0 && (len(r2.diags) != 0 || !looser(r1.ty, r2.ty)) {
		fmt.Println("VIOLATION reproduced: accepted under the precise environment, not under the loosened one")
		return 1
	}
	fmt.Println("not reproduced (property holds on this input)")
	return 0
}
