package main

import (
	"fmt"
	"strings"

	"verifharness/hx"
)

// ---- environments ---------------------------------------------------------

// slots of the typing environment that the exported Update* methods set
var slotNames = []string{"matrix", "steps", "needs", "secrets", "inputs", "dispatch", "jobs"}

type genv struct {
	Slots  map[string]*T // slot -> object type given to Update<Slot>; absent = not called
	Config []string      // configuration variables (nil = none configured)
	HasCfg bool
}

var propPool = []string{"os", "ver", "foo", "bar", "out", "id", "x", "node-version", "a_b", "result", "outputs"}
var idPool = []string{"build", "test", "s1", "s2", "lint", "deploy"}

func genScalar(r *hx.Rng) *T {
	switch r.Intn(10) {
	case 0:
		return tNull
	case 1, 2:
		return tNum
	case 3:
		return tBool
	case 4:
		return tAny
	default:
		return tStr
	}
}

// genType: random type.  Map objects (Mapped neither nil nor any) only get the
// element types string or a strict object of strings and carry no props, like the
// built-in ones; this keeps ObjectType.Merge independent of Go's map order in
// the generated cases (order dependence is C02's subject, not C06's).
func genType(r *hx.Rng, d int) *T {
	c := r.Intn(20)
	if d <= 0 || c < 8 {
		return genScalar(r)
	}
	switch {
	case c < 13:
		n := r.Intn(4)
		t := &T{K: kObj}
		seen := map[string]bool{}
		for i := 0; i < n; i++ {
			k := r.Pick(propPool)
			if seen[k] {
				continue
			}
			seen[k] = true
			t.Keys = append(t.Keys, k)
			t.Vals = append(t.Vals, genType(r, d-1))
		}
		t.sortProps()
		if r.Chance(1, 4) {
			t.Mapped = tAny
		}
		return t
	case c < 15:
		if r.Chance(1, 2) {
			return &T{K: kObj, Mapped: tStr}
		}
		return &T{K: kObj, Mapped: strictObj("id", tStr, "ports", &T{K: kObj, Mapped: tStr})}
	default:
		return &T{K: kArr, Elem: genType(r, d-1), Deref: r.Chance(1, 8)}
	}
}

func genEnv(r *hx.Rng) *genv {
	e := &genv{Slots: map[string]*T{}}
	// matrix: rows of scalars, arrays, objects; sometimes loose
	if r.Chance(4, 5) {
		m := &T{K: kObj}
		seen := map[string]bool{}
		for i, n := 0, 1+r.Intn(3); i < n; i++ {
			k := r.Pick(propPool)
			if seen[k] {
				continue
			}
			seen[k] = true
			m.Keys = append(m.Keys, k)
			m.Vals = append(m.Vals, genType(r, 2))
		}
		m.sortProps()
		if r.Chance(1, 6) {
			m.Mapped = tAny
		}
		e.Slots["matrix"] = m
	}
	if r.Chance(3, 5) {
		s := &T{K: kObj}
		for _, id := range pickSome(r, idPool, 1+r.Intn(2)) {
			outs := &T{K: kObj, Mapped: tAny}
			if r.Chance(1, 2) {
				outs = &T{K: kObj}
				for _, o := range pickSome(r, propPool, r.Intn(3)) {
					outs.Keys = append(outs.Keys, o)
					outs.Vals = append(outs.Vals, tStr)
				}
				outs.sortProps()
			}
			s.Keys = append(s.Keys, id)
			s.Vals = append(s.Vals, strictObj("outputs", outs, "conclusion", tStr, "outcome", tStr))
		}
		s.sortProps()
		if r.Chance(1, 6) {
			s.Mapped = tAny
		}
		e.Slots["steps"] = s
	}
	for _, slot := range []string{"needs", "jobs"} {
		if !r.Chance(2, 5) {
			continue
		}
		s := &T{K: kObj}
		for _, id := range pickSome(r, idPool, 1+r.Intn(2)) {
			outs := &T{K: kObj}
			for _, o := range pickSome(r, propPool, r.Intn(3)) {
				outs.Keys = append(outs.Keys, o)
				outs.Vals = append(outs.Vals, tStr)
			}
			outs.sortProps()
			s.Keys = append(s.Keys, id)
			s.Vals = append(s.Vals, strictObj("outputs", outs, "result", tStr))
		}
		s.sortProps()
		e.Slots[slot] = s
	}
	if r.Chance(2, 5) {
		s := &T{K: kObj}
		for _, k := range pickSome(r, propPool, 1+r.Intn(2)) {
			s.Keys = append(s.Keys, k)
			s.Vals = append(s.Vals, tStr)
		}
		s.sortProps()
		if r.Chance(1, 5) {
			s.Mapped = tStr // dropped by UpdateSecrets
		}
		e.Slots["secrets"] = s
	}
	for _, slot := range []string{"inputs", "dispatch"} {
		if !r.Chance(2, 5) {
			continue
		}
		s := &T{K: kObj}
		for _, k := range pickSome(r, propPool, 1+r.Intn(3)) {
			s.Keys = append(s.Keys, k)
			if slot == "inputs" && r.Chance(1, 5) {
				s.Vals = append(s.Vals, genType(r, 2))
			} else {
				s.Vals = append(s.Vals, []*T{tStr, tNum, tBool, tAny, tStr}[r.Intn(5)])
			}
		}
		s.sortProps()
		e.Slots[slot] = s
	}
	// now and then a completely random object in some slot
	if r.Chance(1, 4) {
		t := genType(r, 3)
		for t.K != kObj {
			t = genType(r, 3)
		}
		e.Slots[r.Pick([]string{"matrix", "steps", "needs", "inputs", "jobs"})] = t
	}
	if r.Chance(1, 6) {
		e.HasCfg = true
		e.Config = pickSome(r, []string{"FOO", "bar", "a_b"}, r.Intn(3))
	}
	return e
}

func pickSome(r *hx.Rng, pool []string, n int) []string {
	p := r.Perm(len(pool))
	if n > len(pool) {
		n = len(pool)
	}
	out := make([]string, 0, n)
	for i := 0; i < n; i++ {
		out = append(out, pool[p[i]])
	}
	return out
}

// ---- expressions ----------------------------------------------------------

type egen struct {
	r     *hx.Rng
	vars  map[string]*T // effective environment (after the updates), as T
	names []string
}

var strPool = []string{"", "a", "foo", "os", "x y", "v1.2", "{0}", "OS"}
var fmtPool = []string{"{0}", "{0} {1}", "{1}", "{{0}} {0}", "{0}{0}", "x", "{2} {0}", "{a}", "{0", "{}", "{01}", "{0} {1} {2}"}
var jsonPool = []string{`[1,2]`, `{"a":1,"b":"x"}`, `[{"os":"l","v":1},{"os":"w"}]`, `{"include":[{"x":1}]}`, `null`, `true`, `"s"`, `[]`, `{}`, `[1,"a"]`, `[[1],[2]]`, `{"a":{"b":[true]}}`, `[1,`, `{a:1}`, ``, `[1,true,"x"]`, `[{"a":1},{"a":"s"}]`,
	// C08: keys in upper / mixed case, keys that differ only in case (their types are merged in sorted order),
	// keys whose sorted order differs from the order of the folded keys
	`{"Foo":1,"BAR":{"Baz":[1],"id":"x"}}`, `{"OS":"l","Ver":1}`, `{"A":1,"a":"x"}`, `{"Os":{"x":1},"oS":{"X":"s","y":true},"b":1}`,
	`[{"OS":"l"},{"os":1,"Id":2}]`, `{"B":1,"a":2,"C":{"d":null}}`, `{"Foo":[1],"fOO":["a"],"foo":[]}`, `{"X":{"Y":{"Z":1}}}`}

// recase: a random ASCII case variant of a name
func (g *egen) recase(k string) string {
	switch g.r.Intn(3) {
	case 0:
		return strings.ToUpper(k)
	case 1:
		return strings.ToLower(k)
	}
	b := []byte(k)
	for i, c := range b {
		if g.r.Chance(1, 2) {
			if 'a' <= c && c <= 'z' {
				b[i] = c - 32
			} else if 'A' <= c && c <= 'Z' {
				b[i] = c + 32
			}
		}
	}
	return string(b)
}

var jsonKeyPool = []string{"foo", "bar", "baz", "os", "ver", "a", "b", "c", "d", "x", "y", "z", "id"}

// jsonAccess: fromJSON of a literal followed by accesses along keys that occur in the literals, in any case,
// as property dereference or as string literal index
func (g *egen) jsonAccess() string {
	s := "fromJSON(" + quote(g.r.Pick(jsonPool)) + ")"
	for i, n := 0, 1+g.r.Intn(3); i < n; i++ {
		k := g.recase(g.r.Pick(jsonKeyPool))
		switch g.r.Intn(6) {
		case 0:
			s += "[0]"
		case 1:
			s += ".*"
		case 2, 3:
			s += "[" + quote(k) + "]"
		default:
			s += "." + k
		}
	}
	return s
}

var funcNames = []string{"contains", "startsWith", "endsWith", "format", "join", "toJSON", "fromJSON", "hashFiles", "success", "always", "cancelled", "failure"}

func quote(s string) string { return "'" + strings.ReplaceAll(s, "'", "''") + "'" }

func (g *egen) lit() string {
	switch g.r.Intn(8) {
	case 0:
		return "null"
	case 1:
		return "true"
	case 2:
		return "false"
	case 3:
		return fmt.Sprint(g.r.Intn(20))
	case 4:
		return []string{"1.5", "0.0", "3e2", "0x1f"}[g.r.Intn(4)]
	default:
		return quote(g.r.Pick(strPool))
	}
}

// path walks the environment type from a variable, mostly along existing
// members; want < 0: any end, otherwise tries to end at that kind.
func (g *egen) path(d int, want int) string {
	name := g.r.Pick(g.names)
	if g.r.Chance(1, 40) {
		name = "nosuch"
	}
	if g.r.Chance(1, 25) {
		name = strings.ToUpper(name[:1]) + name[1:]
	}
	s := name
	t := g.vars[strings.ToLower(name)]
	for steps := 0; steps < 5; steps++ {
		if t == nil {
			t = tAny
		}
		if want >= 0 && t.K == want && g.r.Chance(3, 4) {
			break
		}
		if want < 0 && steps > 0 && g.r.Chance(1, 3) {
			break
		}
		switch t.K {
		case kObj:
			c := g.r.Intn(20)
			switch {
			case c == 0:
				s += ".*"
				switch {
				case t.Mapped != nil && t.Mapped.K == kObj:
					t = &T{K: kArr, Elem: t.Mapped, Deref: true}
				default:
					t = &T{K: kArr, Elem: tAny, Deref: true}
				}
			case c == 1:
				s += "[" + g.idxExpr(d) + "]"
				t = tAny
			default:
				k := g.r.Pick(propPool)
				if len(t.Keys) > 0 && g.r.Chance(9, 10) {
					k = g.r.Pick(t.Keys)
				}
				nt := t.prop(k)
				if nt == nil {
					nt = t.Mapped
				}
				if c < 5 {
					if g.r.Chance(1, 4) {
						k = g.recase(k)
					}
					s += "[" + quote(k) + "]"
				} else {
					if g.r.Chance(1, 10) {
						k = g.recase(k)
					}
					s += "." + k
				}
				t = nt
			}
		case kArr:
			c := g.r.Intn(10)
			switch {
			case c < 3:
				s += ".*"
				t = &T{K: kArr, Elem: t.Elem, Deref: true}
			case c < 5 && t.Deref:
				k := g.r.Pick(propPool)
				if t.Elem.K == kObj && len(t.Elem.Keys) > 0 {
					k = g.r.Pick(t.Elem.Keys)
				}
				s += "." + k
				t = tAny
			case c < 7:
				s += fmt.Sprintf("[%d]", g.r.Intn(3))
				t = t.Elem
			default:
				s += "[" + g.idxExpr(d) + "]"
				t = t.Elem
			}
		case kAny:
			if g.r.Chance(1, 2) {
				return s
			}
			switch g.r.Intn(4) {
			case 0:
				s += ".*"
			case 1:
				s += "[0]"
			default:
				s += "." + g.r.Pick(propPool)
			}
		default:
			if g.r.Chance(1, 15) { // a wrong dereference of a scalar
				switch g.r.Intn(3) {
				case 0:
					s += ".*"
				case 1:
					s += "[0]"
				default:
					s += "." + g.r.Pick(propPool)
				}
			}
			return s
		}
	}
	return s
}

// idxExpr: an index expression: typed any, number or string most of the time
func (g *egen) idxExpr(d int) string {
	switch g.r.Intn(8) {
	case 0, 1:
		return "github.event." + g.r.Pick(propPool)
	case 2:
		return "fromJSON(env." + g.r.Pick(propPool) + ")"
	case 3:
		return g.path(0, kNum)
	case 4:
		return g.path(0, kStr)
	case 5:
		return "strategy.job-index"
	default:
		if d > 0 {
			return g.expr(d - 1)
		}
		return g.lit()
	}
}

func (g *egen) strArg(d int) string {
	switch g.r.Intn(6) {
	case 0, 1:
		return quote(g.r.Pick(strPool))
	case 2:
		if d > 0 {
			return g.call(d-1, "format")
		}
		return g.path(d, kStr)
	default:
		return g.path(d, kStr)
	}
}

func (g *egen) arrArg(d int) string {
	switch g.r.Intn(5) {
	case 0:
		return "fromJSON(" + quote(g.r.Pick(jsonPool)) + ")"
	case 1:
		return g.path(d, kObj) + ".*"
	default:
		return g.path(d, kArr)
	}
}

func (g *egen) call(d int, fn string) string {
	if fn == "" {
		fn = g.r.Pick(funcNames)
	}
	var args []string
	sub := d - 1
	if sub < 0 {
		sub = 0
	}
	any := func() string {
		if d <= 0 {
			if g.r.Chance(1, 2) {
				return g.lit()
			}
			return g.path(0, -1)
		}
		return g.expr(sub)
	}
	switch strings.ToLower(fn) {
	case "contains":
		if g.r.Chance(1, 2) {
			args = []string{g.strArg(sub), g.strArg(sub)}
		} else {
			args = []string{g.arrArg(sub), any()}
		}
	case "startswith", "endswith":
		args = []string{g.strArg(sub), g.strArg(sub)}
	case "format":
		n := g.r.Intn(4)
		if g.r.Chance(4, 5) {
			args = []string{quote(g.r.Pick(fmtPool))}
		} else {
			args = []string{g.strArg(sub)}
		}
		for i := 0; i < n; i++ {
			args = append(args, any())
		}
	case "join":
		args = []string{g.arrArg(sub)}
		if g.r.Chance(1, 2) {
			args = append(args, g.strArg(sub))
		}
	case "tojson":
		args = []string{any()}
	case "fromjson":
		if g.r.Chance(2, 3) {
			args = []string{quote(g.r.Pick(jsonPool))}
		} else {
			args = []string{g.strArg(sub)}
		}
	case "hashfiles":
		for i, n := 0, 1+g.r.Intn(2); i < n; i++ {
			args = append(args, g.strArg(sub))
		}
	}
	// perturb the argument list now and then
	switch g.r.Intn(25) {
	case 0:
		args = append(args, any())
	case 1:
		if len(args) > 0 {
			args = args[:len(args)-1]
		}
	case 2:
		if len(args) > 0 {
			args[g.r.Intn(len(args))] = any()
		}
	case 3:
		fn = "nosuchfunc"
	case 4:
		fn = strings.ToUpper(fn)
	}
	return fn + "(" + strings.Join(args, ", ") + ")"
}

func (g *egen) expr(d int) string {
	if d <= 0 {
		if g.r.Chance(1, 3) {
			return g.lit()
		}
		return g.path(0, -1)
	}
	switch c := g.r.Intn(100); {
	case c < 10:
		return g.lit()
	case c < 40:
		return g.path(d, -1)
	case c < 47:
		return "!" + g.expr(d-1)
	case c < 60:
		op := g.r.Pick([]string{"==", "!=", "<", "<=", ">", ">="})
		var l, r string
		if g.r.Chance(1, 6) {
			// arrays against arrays (element types nested in the array), objects against objects
			if g.r.Chance(2, 3) {
				l, r = g.arrArg(d-1), g.arrArg(d-1)
			} else {
				l, r = g.path(d-1, kObj), g.path(d-1, kObj)
			}
			if g.r.Chance(1, 2) {
				op = g.r.Pick([]string{"==", "!="})
			}
		} else if g.r.Chance(2, 3) {
			k := []int{kStr, kNum, kStr, kBool}[g.r.Intn(4)]
			l, r = g.path(d-1, k), g.path(d-1, k)
			if g.r.Chance(1, 2) {
				r = g.lit()
			}
		} else {
			l, r = g.expr(d-1), g.expr(d-1)
		}
		return l + " " + op + " " + r
	case c < 75:
		op := g.r.Pick([]string{"&&", "||"})
		return g.expr(d-1) + " " + op + " " + g.expr(d-1)
	case c < 78:
		return "(" + g.expr(d-1) + ")"
	case c < 80:
		return g.jsonAccess()
	case c < 85:
		// a postfix on a parenthesised / call receiver
		recv := "(" + g.expr(d-1) + ")"
		switch g.r.Intn(4) {
		case 0, 1:
			recv = g.call(d-1, "fromJSON")
		case 2: // merged array / object types as receivers
			op := g.r.Pick([]string{"&&", "||"})
			if g.r.Chance(2, 3) {
				recv = "(" + g.arrArg(d-1) + " " + op + " " + g.arrArg(d-1) + ")"
			} else {
				recv = "(" + g.path(d-1, kObj) + " " + op + " " + g.path(d-1, kObj) + ")"
			}
		}
		switch g.r.Intn(4) {
		case 0:
			return recv + ".*"
		case 1:
			return recv + "[0]"
		case 2:
			return recv + ".*." + g.r.Pick(propPool)
		default:
			return recv + "." + g.r.Pick(propPool)
		}
	default:
		return g.call(d-1, "")
	}
}
