// Command c06m: the matrix-typing part of property C06.
//
//	K: generated literal matrices (scalars of every literal class, expression
//	   scalars of known types, nested arrays / objects, expression rows,
//	   include lists with assigns and expression elements, include expressions)
//	   are typed by the real RuleExpression.checkMatrix (verif-tagged
//	   VerifMatrixTypeOf) and by the Coq model Expr/MatrixTy.v.
//	Oracle (the property verbatim, end to end through Linter.Lint): for every
//	   single-point loosening of the matrix (a literal scalar, a whole value, a
//	   row, an include value replaced by `${{ fromJSON(vars.X) }}`, i.e. a value
//	   whose type cannot be known) every expression over `matrix` that was
//	   accepted before must still be accepted.
package main

import (
	"bytes"
	"encoding/json"
	"flag"
	"fmt"
	"os"
	"path/filepath"
	"strconv"
	"strings"

	"github.com/rhysd/actionlint"

	"verifharness/hx"
)

// ---- generated matrix --------------------------------------------------------

type gval struct {
	kind  int // 0 scalar literal, 1 scalar expression, 2 array, 3 object
	text  string
	ty    *T // type of a scalar
	elems []*gval
	keys  []string
	vals  []*gval
}

type exprChoice struct {
	src string
	ty  *T
}

var litPool = []struct {
	text string
	ty   *T
}{{"a", tStr}, {"b c", tStr}, {"1", tNum}, {"2.5", tNum}, {"true", tBool}, {"false", tBool}, {"null", tNull}, {"0x10", tStr}, {"TRUE", tStr},
	// spellings that are NOT the keywords true / false / null (the keywords are case-sensitive)
	{"True", tStr}, {"False", tStr}, {"FALSE", tStr}, {"t", tStr}, {"T", tStr}, {"f", tStr}, {"F", tStr}, {"NULL", tStr}, {"Null", tStr}, {"nil", tStr}, {"yes", tStr}}

const anyExpr = "${{ fromJSON(vars.X) }}"

func exprPool() []exprChoice {
	srcs := []string{"fromJSON(vars.X)", "github.sha", "42", "true", "null", "fromJSON('[1,2]')", "fromJSON('{\"name\":\"n\",\"id\":1}')", "vars", "github.event.inputs", "fromJSON('[{\"name\":\"x\"}]')"}
	var out []exprChoice
	for _, s := range srcs {
		out = append(out, exprChoice{"${{ " + s + " }}", typeOfExpr(s)})
	}
	return out
}

// typeOfExpr asks the real checker for the type of a context-free expression.
func typeOfExpr(src string) *T {
	p := actionlint.NewExprParser()
	n, perr := p.Parse(actionlint.NewExprLexer(src + "}}"))
	if perr != nil {
		return tAny
	}
	c := actionlint.NewExprSemanticsChecker(false, nil)
	ctx, sp := actionlint.WorkflowKeyAvailability("jobs.<job_id>.strategy")
	c.SetContextAvailability(ctx)
	c.SetSpecialFunctionAvailability(sp)
	ty, errs := c.Check(n)
	if len(errs) > 0 {
		return tAny
	}
	return fromAL(ty)
}

var keyPool = []string{"os", "cfg", "node", "extra"}
var propPool = []string{"name", "id", "flags"}

func genScalar(r *hx.Rng, pool []exprChoice) *gval {
	if r.Chance(1, 4) {
		e := pool[r.Intn(len(pool))]
		return &gval{kind: 1, text: e.src, ty: e.ty}
	}
	l := litPool[r.Intn(len(litPool))]
	return &gval{kind: 0, text: l.text, ty: l.ty}
}

func genVal(r *hx.Rng, depth int, pool []exprChoice) *gval {
	c := r.Intn(10)
	if depth <= 0 || c < 5 {
		return genScalar(r, pool)
	}
	if c < 7 {
		v := &gval{kind: 2}
		n := r.Intn(4)
		for i := 0; i < n; i++ {
			v.elems = append(v.elems, genVal(r, depth-1, pool))
		}
		return v
	}
	v := &gval{kind: 3}
	n := 1 + r.Intn(3)
	for _, i := range r.Perm(len(propPool))[:n] {
		v.keys = append(v.keys, propPool[i])
		v.vals = append(v.vals, genVal(r, depth-1, pool))
	}
	return v
}

func yamlScalar(s string) string {
	if strings.HasPrefix(s, "${{") || strings.ContainsAny(s, " :{}[],") {
		return "'" + strings.ReplaceAll(s, "'", "''") + "'"
	}
	return s
}

func (v *gval) yaml() string {
	switch v.kind {
	case 0, 1:
		return yamlScalar(v.text)
	case 2:
		xs := []string{}
		for _, e := range v.elems {
			xs = append(xs, e.yaml())
		}
		return "[" + strings.Join(xs, ", ") + "]"
	default:
		xs := []string{}
		for i, k := range v.keys {
			xs = append(xs, k+": "+v.vals[i].yaml())
		}
		return "{" + strings.Join(xs, ", ") + "}"
	}
}

func (v *gval) coq() string {
	switch v.kind {
	case 0, 1:
		return "(RScalar " + v.ty.coq() + ")"
	case 2:
		xs := []string{}
		for _, e := range v.elems {
			xs = append(xs, e.coq())
		}
		return "(RArr " + hx.CoqList(xs) + ")"
	default:
		xs := []string{}
		for i, k := range v.keys {
			xs = append(xs, "("+hx.CoqStr(strings.ToLower(k))+", "+v.vals[i].coq()+")")
		}
		return "(RObj " + hx.CoqList(xs) + ")"
	}
}

type grow struct {
	key  string
	expr *exprChoice
	vals []*gval
}

type gcomb struct {
	expr *exprChoice
	keys []string
	vals []*gval
}

type gmatrix struct {
	rows    []grow
	incKind int // 0 none 1 expression 2 list
	incExpr *exprChoice
	include []gcomb
}

func genMatrix(r *hx.Rng, pool []exprChoice) *gmatrix {
	m := &gmatrix{}
	n := 1 + r.Intn(3)
	for _, i := range r.Perm(len(keyPool))[:n] {
		row := grow{key: keyPool[i]}
		if r.Chance(1, 7) {
			e := pool[r.Intn(len(pool))]
			row.expr = &e
		} else {
			k := 1 + r.Intn(3)
			for j := 0; j < k; j++ {
				row.vals = append(row.vals, genVal(r, 2, pool))
			}
		}
		m.rows = append(m.rows, row)
	}
	switch r.Intn(5) {
	case 0:
		m.incKind = 1
		e := pool[r.Intn(len(pool))]
		m.incExpr = &e
	case 1, 2:
		m.incKind = 2
		k := 1 + r.Intn(3)
		for j := 0; j < k; j++ {
			if r.Chance(1, 5) {
				e := pool[r.Intn(len(pool))]
				m.include = append(m.include, gcomb{expr: &e})
				continue
			}
			c := gcomb{}
			nk := 1 + r.Intn(2)
			for _, i := range r.Perm(len(keyPool))[:nk] {
				c.keys = append(c.keys, keyPool[i])
				c.vals = append(c.vals, genVal(r, 2, pool))
			}
			m.include = append(m.include, c)
		}
	}
	return m
}

func (m *gmatrix) yaml(indent string) string {
	var b strings.Builder
	for _, r := range m.rows {
		if r.expr != nil {
			fmt.Fprintf(&b, "%s%s: %s\n", indent, r.key, r.expr.src)
			continue
		}
		xs := []string{}
		for _, v := range r.vals {
			xs = append(xs, v.yaml())
		}
		fmt.Fprintf(&b, "%s%s: [%s]\n", indent, r.key, strings.Join(xs, ", "))
	}
	switch m.incKind {
	case 1:
		fmt.Fprintf(&b, "%sinclude: %s\n", indent, m.incExpr.src)
	case 2:
		fmt.Fprintf(&b, "%sinclude:\n", indent)
		for _, c := range m.include {
			if c.expr != nil {
				fmt.Fprintf(&b, "%s  - %s\n", indent, c.expr.src)
				continue
			}
			for i, k := range c.keys {
				lead := indent + "    "
				if i == 0 {
					lead = indent + "  - "
				}
				fmt.Fprintf(&b, "%s%s: %s\n", lead, k, c.vals[i].yaml())
			}
		}
	}
	return b.String()
}

func optTy(e *exprChoice) string {
	if e == nil {
		return "None"
	}
	return "(Some " + e.ty.coq() + ")"
}

func (m *gmatrix) coq() string {
	rows := []string{}
	for _, r := range m.rows {
		if r.expr != nil {
			rows = append(rows, fmt.Sprintf("(%s, MRowExpr %s)", hx.CoqStr(r.key), optTy(r.expr)))
			continue
		}
		xs := []string{}
		for _, v := range r.vals {
			xs = append(xs, v.coq())
		}
		rows = append(rows, fmt.Sprintf("(%s, MRowVals %s)", hx.CoqStr(r.key), hx.CoqList(xs)))
	}
	inc := "MInclNone"
	switch m.incKind {
	case 1:
		inc = "(MInclExpr " + optTy(m.incExpr) + ")"
	case 2:
		cs := []string{}
		for _, c := range m.include {
			if c.expr != nil {
				cs = append(cs, "MCombExpr "+optTy(c.expr))
				continue
			}
			ps := []string{}
			for i, k := range c.keys {
				ps = append(ps, "("+hx.CoqStr(k)+", "+c.vals[i].coq()+")")
			}
			cs = append(cs, "MCombAssigns "+hx.CoqList(ps))
		}
		inc = "(MInclList " + hx.CoqList(cs) + ")"
	}
	return fmt.Sprintf("(Build_mtx %s %s)", hx.CoqList(rows), inc)
}

func workflow(m *gmatrix, uses []string) string {
	var b strings.Builder
	b.WriteString("on: push\njobs:\n  test:\n    runs-on: ubuntu-latest\n    strategy:\n      matrix:\n")
	b.WriteString(m.yaml("        "))
	b.WriteString("    steps:\n      - run: echo\n        env:\n          KEEP: x\n")
	for i, u := range uses {
		fmt.Fprintf(&b, "          U%d: ${{ %s }}\n", i, u)
	}
	return b.String()
}

// ---- parsing VerifDumpType output ---------------------------------------------

type dparser struct {
	s string
	i int
}

func (p *dparser) ty() *T {
	if p.i >= len(p.s) {
		return tAny
	}
	switch p.s[p.i] {
	case '[':
		p.i++
		e := p.ty()
		p.i++ // ]
		t := &T{K: kArr, Elem: e}
		if p.i < len(p.s) && p.s[p.i] == '*' {
			t.Deref = true
			p.i++
		}
		return t
	case '{':
		p.i++
		t := &T{K: kObj}
		for p.i < len(p.s) && p.s[p.i] != '}' {
			j := strings.IndexByte(p.s[p.i:], ':')
			k := p.s[p.i : p.i+j]
			p.i += j + 1
			v := p.ty()
			p.i++ // ;
			t.Keys = append(t.Keys, k)
			t.Vals = append(t.Vals, v)
		}
		p.i++ // }
		if strings.HasPrefix(p.s[p.i:], "=>") {
			p.i += 2
			t.Mapped = p.ty()
		}
		t.sortProps()
		return t
	}
	for _, n := range []struct {
		name string
		t    *T
	}{{"any", tAny}, {"string", tStr}, {"number", tNum}, {"bool", tBool}, {"null", tNull}} {
		if strings.HasPrefix(p.s[p.i:], n.name) {
			p.i += len(n.name)
			return n.t
		}
	}
	panic("cannot parse type dump: " + p.s[p.i:])
}

// ---- linting -------------------------------------------------------------------

// lintProject: the workflow linted as .github/workflows/gen.yaml of a scratch repository that
// holds the given other files (local reusable workflows, local actions)
var lintProject string

func lintLines(src string) (map[int][]string, error) {
	var ob bytes.Buffer
	l, err := actionlint.NewLinter(&ob, &actionlint.LinterOptions{Color: actionlint.ColorOptionKindNever})
	if err != nil {
		return nil, err
	}
	path := "gen.yaml"
	var proj *actionlint.Project
	if lintProject != "" {
		path = filepath.Join(lintProject, ".github", "workflows", "gen.yaml")
		if proj, err = actionlint.NewProject(lintProject); err != nil {
			return nil, err
		}
	}
	errs, err := l.Lint(path, []byte(src), proj)
	if err != nil {
		return nil, err
	}
	by := map[int][]string{}
	for _, e := range errs {
		if e.Kind == "expression" {
			by[e.Line] = append(by[e.Line], e.Message)
		}
	}
	return by, nil
}

// usesFor builds expressions over `matrix` for the keys / props in play.
func usesFor(r *hx.Rng) []string {
	var us []string
	for _, k := range keyPool {
		us = append(us, "matrix."+k)
		p := propPool[r.Intn(len(propPool))]
		us = append(us, "matrix."+k+"."+p)
		us = append(us, "matrix."+k+"[0]")
		us = append(us, "matrix."+k+".*."+p)
		us = append(us, "matrix."+k+" == 1")
		us = append(us, "matrix."+k+"."+p+".x")
		us = append(us, "contains(matrix."+k+", 'a')")
	}
	return us
}

// single-point loosenings of a matrix: each returns a modified copy
func (v *gval) clone() *gval {
	c := *v
	c.elems = nil
	for _, e := range v.elems {
		c.elems = append(c.elems, e.clone())
	}
	c.vals = nil
	for _, e := range v.vals {
		c.vals = append(c.vals, e.clone())
	}
	c.keys = append([]string{}, v.keys...)
	return &c
}

func (m *gmatrix) clone() *gmatrix {
	c := &gmatrix{incKind: m.incKind, incExpr: m.incExpr}
	for _, r := range m.rows {
		nr := grow{key: r.key, expr: r.expr}
		for _, v := range r.vals {
			nr.vals = append(nr.vals, v.clone())
		}
		c.rows = append(c.rows, nr)
	}
	for _, cb := range m.include {
		nc := gcomb{expr: cb.expr, keys: append([]string{}, cb.keys...)}
		for _, v := range cb.vals {
			nc.vals = append(nc.vals, v.clone())
		}
		c.include = append(c.include, nc)
	}
	return c
}

// walk calls f with every value node of the matrix (pointer into the copy)
func (m *gmatrix) walk(f func(where string, v *gval)) {
	var rec func(where string, v *gval)
	rec = func(where string, v *gval) {
		f(where, v)
		for i, e := range v.elems {
			rec(fmt.Sprintf("%s[%d]", where, i), e)
		}
		for i, e := range v.vals {
			rec(where+"."+v.keys[i], e)
		}
	}
	for ri := range m.rows {
		for vi, v := range m.rows[ri].vals {
			rec(fmt.Sprintf("row %s value %d", m.rows[ri].key, vi), v)
		}
	}
	for ci := range m.include {
		for vi, v := range m.include[ci].vals {
			rec(fmt.Sprintf("include %d key %s", ci, m.include[ci].keys[vi]), v)
		}
	}
}

type failure struct {
	What     string   `json:"what"`
	Key      string   `json:"key"`
	Workflow string   `json:"workflow"`
	Loosened string   `json:"loosened_workflow,omitempty"`
	Where    string   `json:"where,omitempty"`
	Line     int      `json:"line,omitempty"`
	Messages []string `json:"messages,omitempty"`
}

func main() {
	seed := flag.Uint64("seed", 1, "PRNG seed")
	n := flag.Int("n", 150, "generated matrices")
	out := flag.String("out", "", "output directory")
	replay := flag.String("replay", "", "replay file")
	flag.Parse()
	if *replay != "" {
		b, err := os.ReadFile(*replay)
		hx.Must(err)
		var f failure
		hx.Must(json.Unmarshal(b, &f))
		before, err := lintLines(f.Workflow)
		hx.Must(err)
		after, err := lintLines(f.Loosened)
		hx.Must(err)
		fmt.Printf("line %d before: %v\nline %d after loosening (%s): %v\n", f.Line, before[f.Line], f.Line, f.Where, after[f.Line])
		if len(before[f.Line]) == 0 && len(after[f.Line]) > 0 {
			fmt.Println("REPLAY: property violated")
			os.Exit(1)
		}
		fmt.Println("REPLAY: property holds on this input")
		return
	}
	hx.Must(os.MkdirAll(*out, 0o755))
	r := hx.NewRng(*seed ^ 0x6d)
	pool := exprPool()
	sum := hx.NewSummary("C06")
	sum.Rule = "matrix typing: generated literal matrices (9 literal classes, 10 expression scalars of known type, arrays/objects to depth 2, expression rows, include lists / expression elements / include expressions); K compares RuleExpression.checkMatrix with the Coq model; oracle: every single-point loosening of a value to an expression of unknown type must keep every accepted `matrix` expression accepted (Linter.Lint)"
	cases, err := os.Create(filepath.Join(*out, "cases_matrix.txt"))
	hx.Must(err)
	defer cases.Close()
	nontrivial := 0
	for i := 0; i < *n; i++ {
		m := genMatrix(r, pool)
		uses := usesFor(r)
		src := workflow(m, uses)
		w, _ := actionlint.Parse([]byte(src))
		if w == nil || w.Jobs["test"] == nil {
			sum.Dist["skipped_parse"]++
			continue
		}
		dump := actionlint.VerifMatrixTypeOf(w, w.Jobs["test"])
		implTy := (&dparser{s: dump}).ty()
		fmt.Fprintf(cases, "((%s, %s), [[0]%%N])\n", m.coq(), implTy.coq())
		sum.Evaluations++
		before, err := lintLines(src)
		if err != nil {
			sum.Dist["skipped_lint"]++
			continue
		}
		firstUse := strings.Count(src[:strings.Index(src, "          U0:")], "\n") + 1
		accepted := 0
		for k := range uses {
			if len(before[firstUse+k]) == 0 {
				accepted++
			}
		}
		sum.Dist["accepted_uses"] += accepted
		sum.Dist["rejected_uses"] += len(uses) - accepted
		// loosenings
		var wheres []string
		m.walk(func(where string, v *gval) { wheres = append(wheres, where) })
		nl := 0
		for wi, where := range wheres {
			if len(wheres) > 12 && !r.Chance(12, len(wheres)) {
				continue
			}
			c := m.clone()
			idx := 0
			c.walk(func(w2 string, v *gval) {
				if idx == wi {
					*v = gval{kind: 1, text: anyExpr, ty: tAny}
				}
				idx++
			})
			lsrc := workflow(c, uses)
			after, err := lintLines(lsrc)
			if err != nil {
				continue
			}
			nl++
			sum.Evaluations++
			for k := range uses {
				ln := firstUse + k
				if len(before[ln]) == 0 && len(after[ln]) > 0 {
					sum.OracleFails = append(sum.OracleFails, failure{
						What:     "making a matrix value's type unknown introduced a diagnostic for an expression that was accepted",
						Key:      "matrix-loosening:" + classOf(after[ln][0]),
						Workflow: src, Loosened: lsrc, Where: where, Line: ln, Messages: after[ln]})
				}
			}
		}
		// whole rows and whole include values -> expression of unknown type
		for ri := range m.rows {
			if m.rows[ri].expr != nil {
				continue
			}
			c := m.clone()
			e := exprChoice{anyExpr, tAny}
			c.rows[ri].expr = &e
			c.rows[ri].vals = nil
			lsrc := workflow(c, uses)
			after, err := lintLines(lsrc)
			if err != nil {
				continue
			}
			nl++
			sum.Evaluations++
			for k := range uses {
				ln := firstUse + k
				if len(before[ln]) == 0 && len(after[ln]) > 0 {
					sum.OracleFails = append(sum.OracleFails, failure{
						What:     "making a matrix row's type unknown introduced a diagnostic for an expression that was accepted",
						Key:      "matrix-row-loosening:" + classOf(after[ln][0]),
						Workflow: src, Loosened: lsrc, Where: "row " + m.rows[ri].key, Line: ln, Messages: after[ln]})
				}
			}
		}
		if accepted > 0 && nl > 0 {
			nontrivial++
		}
		if i < 2 {
			sum.Samples = append(sum.Samples, map[string]interface{}{"workflow": src, "matrix_type": dump, "loosenings": nl})
		}
	}
	// other places where a value of known type is replaced by one of unknown type (`@E@`): the
	// workflow with the precise expression lints without an expression diagnostic, so must the
	// one with fromJSON(vars.X) / vars / an id computed by an expression
	{
		hdr := "on: push\njobs:\n  a:\n    runs-on: ubuntu-latest\n"
		call := func(ty, dflt string) string {
			return "on:\n  workflow_call:\n    inputs:\n      x:\n        type: " + ty + "\n        default: " + dflt + "\njobs:\n  a:\n    runs-on: ubuntu-latest\n    steps:\n      - run: echo\n"
		}
		anyE := "${{ fromJSON(vars.X) }}"
		sites := []struct{ name, precise, loose string }{
			{"call-input-number-default", call("number", "${{ 3 }}"), call("number", anyE)},
			{"call-input-number-default-event", call("number", "${{ fromJSON('3') }}"), call("number", "${{ github.event.repository.size }}")},
			{"call-input-boolean-default", call("boolean", "${{ true }}"), call("boolean", anyE)},
			{"call-input-string-default", call("string", "${{ 'x' }}"), call("string", anyE)},
			{"timeout-minutes", hdr + "    timeout-minutes: ${{ 10 }}\n    steps:\n      - run: echo\n", hdr + "    timeout-minutes: " + anyE + "\n    steps:\n      - run: echo\n"},
			{"continue-on-error", hdr + "    continue-on-error: ${{ true }}\n    steps:\n      - run: echo\n", hdr + "    continue-on-error: " + anyE + "\n    steps:\n      - run: echo\n"},
			{"max-parallel", hdr + "    strategy:\n      max-parallel: ${{ 2 }}\n      fail-fast: ${{ true }}\n      matrix:\n        v: [1]\n    steps:\n      - run: echo\n", hdr + "    strategy:\n      max-parallel: " + anyE + "\n      fail-fast: " + anyE + "\n      matrix:\n        v: [1]\n    steps:\n      - run: echo\n"},
			{"step-timeout", hdr + "    steps:\n      - run: echo\n        timeout-minutes: ${{ 1 }}\n        continue-on-error: ${{ false }}\n", hdr + "    steps:\n      - run: echo\n        timeout-minutes: " + anyE + "\n        continue-on-error: " + anyE + "\n"},
			{"step-id-partly-computed", hdr + "    steps:\n      - id: build-linux\n        run: echo\n      - run: echo ${{ steps.build-linux.outputs.x }}\n", hdr + "    steps:\n      - id: build-${{ 'linux' }}\n        run: echo\n      - run: echo ${{ steps.build-linux.outputs.x }} ${{ steps.other.outcome }}\n"},
			{"step-id-computed", hdr + "    steps:\n      - id: build-linux\n        run: echo\n      - run: echo ${{ steps.build-linux.outputs.x }}\n", hdr + "    steps:\n      - id: ${{ 'build-linux' }}\n        run: echo\n      - run: echo ${{ steps.build-linux.outputs.x }} ${{ steps.other.outcome }}\n"},
			{"index-by-unknown", hdr + "    strategy:\n      matrix:\n        idx: [0, 1]\n        targets:\n          - [a, b]\n    steps:\n      - run: echo ${{ matrix.targets[matrix.idx] }}\n", hdr + "    strategy:\n      matrix:\n        idx: ['" + anyE + "']\n        targets:\n          - [a, b]\n    steps:\n      - run: echo ${{ matrix.targets[matrix.idx] }}\n"},
			{"env-object", "on: push\nenv: ${{ fromJSON('{\"A\":\"b\"}') }}\njobs:\n  a:\n    runs-on: ubuntu-latest\n    steps:\n      - run: echo ${{ env.A }}\n", "on: push\nenv: " + anyE + "\njobs:\n  a:\n    runs-on: ubuntu-latest\n    steps:\n      - run: echo ${{ env.A }}\n"},
		}
		// the whole matrix given by an object: closed ({os: string}) -> open ({string => string} /
		// config variables); the runner labels of a matrix row: array<string> -> array<any>
		setupClosed := "  setup:\n    runs-on: ubuntu-latest\n    outputs:\n      os: ${{ steps.s.outputs.os }}\n    steps:\n      - id: s\n        run: echo\n"
		setupOpen := "  setup:\n    uses: owner/repo/.github/workflows/setup.yml@v1\n"
		build := func(m string) string {
			return "  build:\n    needs: setup\n    strategy:\n      matrix: " + m + "\n    runs-on: ubuntu-latest\n    steps:\n      - run: echo ${{ matrix.os }} ${{ matrix.os == 'x' }}\n"
		}
		runner := func(el string) string {
			return "on: push\njobs:\n  a:\n    strategy:\n      matrix:\n        runner:\n          - [self-hosted, linux]\n          - [self-hosted, " + el + "]\n    runs-on: ${{ matrix.runner }}\n    steps:\n      - run: echo\n"
		}
		sites = append(sites, []struct{ name, precise, loose string }{
			{"matrix-from-needs-outputs", "on: push\njobs:\n" + setupClosed + build("${{ needs.setup.outputs }}"), "on: push\njobs:\n" + setupOpen + build("${{ needs.setup.outputs }}")},
			{"matrix-from-vars", "on: push\njobs:\n" + setupClosed + build("${{ needs.setup.outputs }}"), "on: push\njobs:\n" + setupClosed + build("${{ vars }}")},
			{"matrix-from-unknown", "on: push\njobs:\n" + setupClosed + build("${{ needs.setup.outputs }}"), "on: push\njobs:\n" + setupClosed + build(anyE)},
			{"runs-on-array-element", runner("macos"), runner("'" + anyE + "'")},
			{"runs-on-array", runner("macos"), "on: push\njobs:\n  a:\n    strategy:\n      matrix:\n        runner:\n          - [self-hosted, linux]\n          - " + anyE + "\n    runs-on: ${{ matrix.runner }}\n    steps:\n      - run: echo\n"},
			{"runs-on-elements-expr", "on: push\njobs:\n  a:\n    runs-on: ${{ fromJSON('[\"a\",\"b\"]') }}\n    steps:\n      - run: echo\n", "on: push\njobs:\n  a:\n    runs-on: ${{ fromJSON(vars.LABELS) }}\n    steps:\n      - run: echo\n"},
		}...)
		// include elements given by expressions: a map-typed element first, then an object literal
		// (precise) against an element of unknown type (loose); the members of a matrix value are used
		incl := func(first, second string) string {
			return "on: push\njobs:\n" + setupOpen + "  build:\n    needs: setup\n    strategy:\n      matrix:\n        include:\n          - " + first + "\n          - " + second + "\n    runs-on: ubuntu-latest\n    steps:\n      - run: echo ${{ matrix.cfg.name }} ${{ matrix.os }}\n"
		}
		sites = append(sites, []struct{ name, precise, loose string }{
			{"include-after-vars-element", incl("${{ vars }}", "cfg: {name: x}"), incl("${{ vars }}", anyE)},
			{"include-after-open-outputs-element", incl("${{ needs.setup.outputs }}", "cfg: {name: x}"), incl("${{ needs.setup.outputs }}", anyE)},
			{"include-before-vars-element", incl("cfg: {name: x}", "${{ vars }}"), incl(anyE, "${{ vars }}")},
			{"include-two-unknown-elements", incl("cfg: {name: x}", "os: y"), incl(anyE, anyE)},
		}...)
		// the outputs of a step that runs a registry image are unknown (it may write to $GITHUB_OUTPUT)
		stepOut := func(uses, out string) string {
			return hdr + "    steps:\n      - id: img\n        uses: " + uses + "\n      - run: echo ${{ steps.img.outputs." + out + " }} ${{ steps.img.outputs." + out + " == 'x' }}\n"
		}
		sites = append(sites, []struct{ name, precise, loose string }{
			{"docker-image-step-outputs", stepOut("actions/checkout@v4", "ref"), stepOut("docker://alpine:3.19", "ref")},
			{"docker-image-step-outputs-any-name", stepOut("actions/checkout@v4", "commit"), stepOut("docker://ghcr.io/owner/img:1", "digest")},
		}...)
		// a closed object merged (|| / &&) with an object of which nothing is known: a member that only
		// the other operand could have stays accepted
		mergeSite := func(other string) string {
			return hdr + "    steps:\n      - run: echo ${{ (fromJSON('{\"a\":\"x\"}') || " + other + ").b.c }} ${{ (" + other + " && fromJSON('{\"a\":\"x\"}')).b.c }}\n"
		}
		sites = append(sites, []struct{ name, precise, loose string }{
			{"merge-closed-with-open-event", mergeSite("fromJSON('{\"b\":{\"c\":\"y\"}}')"), mergeSite("github.event")},
			{"merge-closed-with-unknown", mergeSite("fromJSON('{\"b\":{\"c\":\"y\"}}')"), mergeSite("fromJSON(vars.X)")},
		}...)
		// a ROW key that an include element re-defines as an object: with the element's type unknown the
		// member access on the row key must stay accepted
		inclRow := func(el string) string {
			return "on: push\njobs:\n  build:\n    strategy:\n      matrix:\n        os: [ubuntu]\n        ver: [1, 2]\n        include:\n          - " + el + "\n    runs-on: ubuntu-latest\n    steps:\n      - run: echo ${{ matrix.os.x }} ${{ matrix.ver.major }}\n"
		}
		sites = append(sites, []struct{ name, precise, loose string }{
			{"include-element-redefines-row-key", inclRow("'${{ fromJSON(''{\"os\": {\"x\": 1}, \"ver\": {\"major\": 1}}'') }}'"), inclRow(anyE)},
			{"include-element-redefines-row-key-event", inclRow("'${{ fromJSON(''{\"os\": {\"x\": 1}, \"ver\": {\"major\": 1}}'') }}'"), inclRow("${{ github.event.client_payload.extra }}")},
		}...)
		// the `jobs` context of a reusable workflow: a job with declared outputs against a job that
		// is itself a call (outputs unknown)
		callOut := func(build string) string {
			return "on:\n  workflow_call:\n    outputs:\n      t:\n        value: ${{ jobs.build.outputs.tag }}\n      v:\n        value: ${{ jobs.version.outputs.v }}\njobs:\n  version:\n    runs-on: ubuntu-latest\n    outputs:\n      v: x\n    steps:\n      - run: echo\n" + build
		}
		sites = append(sites, struct{ name, precise, loose string }{"jobs-context-nested-call",
			callOut("  build:\n    runs-on: ubuntu-latest\n    outputs:\n      tag: x\n    steps:\n      - run: echo\n"),
			callOut("  build:\n    uses: owner/repo/.github/workflows/b.yml@v1\n")})
		for _, st := range sites {
			pre, err1 := lintLines(st.precise)
			post, err2 := lintLines(st.loose)
			sum.Evaluations++
			if err1 != nil || err2 != nil || len(pre) > 0 {
				sum.Dist["site_loosening_precondition_not_met:"+st.name]++
				continue
			}
			sum.Dist["site_loosenings"]++
			if len(post) > 0 {
				var msgs []string
				for _, m := range post {
					msgs = append(msgs, m...)
				}
				sum.OracleFails = append(sum.OracleFails, failure{What: "replacing a value of known type by one of unknown type introduced a diagnostic (" + st.name + ")",
					Key: "site-loosening:" + st.name, Workflow: st.precise, Loosened: st.loose, Where: st.name, Messages: msgs})
			}
		}
	}
	// sites that need files on disk: the outputs of a LOCAL reusable workflow, declared (closed
	// object) against not readable (unknown: open); the job that reads them is written BEFORE the
	// job that makes the call, and after it
	{
		root := filepath.Join(*out, "calleeproj")
		os.RemoveAll(root)
		must := func(err error) {
			if err != nil {
				panic(err)
			}
		}
		must(os.MkdirAll(filepath.Join(root, ".git"), 0o755))
		must(os.MkdirAll(filepath.Join(root, ".github", "workflows"), 0o755))
		callee := filepath.Join(root, ".github", "workflows", "build.yaml")
		reader := "  use:\n    needs: [call]\n    runs-on: ubuntu-latest\n    steps:\n      - run: echo ${{ needs.call.outputs.tag }}\n"
		caller := "  call:\n    uses: ./.github/workflows/build.yaml\n"
		lintProject = root
		for _, order := range []struct{ name, jobs string }{{"reader-first", reader + caller}, {"caller-first", caller + reader}} {
			src := "on: push\njobs:\n" + order.jobs
			must(os.WriteFile(callee, []byte("on:\n  workflow_call:\n    outputs:\n      tag:\n        value: x\njobs:\n  j:\n    runs-on: ubuntu-latest\n    steps:\n      - run: echo\n"), 0o644))
			pre, err1 := lintLines(src)
			for _, variant := range []string{"missing", "not-a-workflow", "no-workflow-call"} {
				os.Remove(callee)
				switch variant {
				case "not-a-workflow":
					must(os.WriteFile(callee, []byte("on: [\n"), 0o644))
				case "no-workflow-call":
					must(os.WriteFile(callee, []byte("on: push\njobs:\n  j:\n    runs-on: ubuntu-latest\n    steps:\n      - run: echo\n"), 0o644))
				}
				post, err2 := lintLines(src)
				name := "needs-of-local-callee:" + order.name + ":" + variant
				sum.Evaluations++
				if err1 != nil || err2 != nil || len(pre) > 0 {
					sum.Dist["site_loosening_precondition_not_met:"+name]++
					continue
				}
				sum.Dist["site_loosenings"]++
				var msgs []string
				for _, ms := range post {
					for _, m := range ms {
						// (that the callee cannot be read is reported, once: not a typing diagnostic)
						if !strings.HasPrefix(m, "could not read reusable workflow file") && !strings.HasPrefix(m, "error while parsing reusable workflow") {
							msgs = append(msgs, m)
						}
					}
				}
				if len(msgs) > 0 {
					sum.OracleFails = append(sum.OracleFails, failure{What: "the outputs of a local reusable workflow that cannot be read (unknown) instead of declared introduced a diagnostic (" + name + ")",
						Key: "site-loosening:" + name, Workflow: src, Loosened: src, Where: name + "; callee .github/workflows/build.yaml " + variant, Messages: msgs})
				}
			}
		}
		// the typed inputs of a local reusable workflow: a value of a known fitting type (precise)
		// against a value of unknown type (loose), given as one placeholder
		must(os.WriteFile(callee, []byte("on:\n  workflow_call:\n    inputs:\n      minutes:\n        type: number\n      flag:\n        type: boolean\n      label:\n        type: string\njobs:\n  j:\n    runs-on: ubuntu-latest\n    steps:\n      - run: echo\n"), 0o644))
		withCall := func(m, f, l string) string {
			return "on:\n  workflow_dispatch:\n    inputs:\n      minutes:\n        type: number\n      untyped:\n        description: d\njobs:\n  call:\n    uses: ./.github/workflows/build.yaml\n    with:\n      minutes: " + m + "\n      flag: " + f + "\n      label: " + l + "\n"
		}
		for _, st := range []struct{ name, precise, loose string }{
			{"call-input-values-unknown", withCall("${{ 3 }}", "${{ true }}", "${{ 'x' }}"), withCall("${{ fromJSON(vars.X) }}", "${{ fromJSON(vars.Y) }}", "${{ fromJSON(vars.Z) }}")},
			{"call-input-values-from-event", withCall("${{ fromJSON('3') }}", "${{ 1 == 1 }}", "${{ github.sha }}"), withCall("${{ github.event.client_payload.m }}", "${{ github.event.client_payload.f }}", "${{ github.event.client_payload.l }}")},
			{"call-input-values-from-untyped-input", withCall("${{ inputs.minutes }}", "true", "x"), withCall("${{ inputs.untyped }}", "${{ inputs.untyped }}", "${{ inputs.untyped }}")},
		} {
			pre, err1 := lintLines(st.precise)
			post, err2 := lintLines(st.loose)
			sum.Evaluations++
			if err1 != nil || err2 != nil || len(pre) > 0 {
				sum.Dist["site_loosening_precondition_not_met:"+st.name]++
				continue
			}
			sum.Dist["site_loosenings"]++
			var msgs []string
			for _, ms := range post {
				msgs = append(msgs, ms...)
			}
			if len(msgs) > 0 {
				sum.OracleFails = append(sum.OracleFails, failure{What: "a `with:` value of unknown type instead of a fitting known type introduced a diagnostic (" + st.name + ")",
					Key: "site-loosening:" + st.name, Workflow: st.precise, Loosened: st.loose, Where: st.name, Messages: msgs})
			}
		}
		lintProject = ""
		os.RemoveAll(root)
	}
	sum.Nontrivial = nontrivial
	sum.Write(filepath.Join(*out, "summary_matrix.json"))
}

func classOf(msg string) string {
	for _, p := range []string{"is not defined in object type", "must be type of object", "index access", "object filter", "receiver of", "cannot be compared", "argument of function"} {
		if strings.Contains(msg, p) {
			return strings.ReplaceAll(p, " ", "-")
		}
	}
	w := strings.Fields(msg)
	if len(w) > 3 {
		w = w[:3]
	}
	return strings.Join(w, "-") + strconv.Itoa(len(msg)%7)
}
