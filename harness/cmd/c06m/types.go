package main

import (
	"fmt"
	"sort"
	"strings"

	"github.com/rhysd/actionlint"

	"verifharness/hx"
)

// T is the harness's own immutable picture of an actionlint.ExprType.  Fresh
// actionlint values are built from it for every Check, because the checker
// mutates ArrayType.Deref of the types it is given (defect #10, property C09).
type T struct {
	K      int // 0 any 1 null 2 number 3 bool 4 string 5 object 6 array
	Keys   []string
	Vals   []*T
	Mapped *T // object: nil = strict
	Elem   *T
	Deref  bool
}

const (
	kAny = iota
	kNull
	kNum
	kBool
	kStr
	kObj
	kArr
)

var (
	tAny  = &T{K: kAny}
	tNull = &T{K: kNull}
	tNum  = &T{K: kNum}
	tBool = &T{K: kBool}
	tStr  = &T{K: kStr}
)

func strictObj(kv ...interface{}) *T {
	t := &T{K: kObj}
	for i := 0; i+1 < len(kv); i += 2 {
		t.Keys = append(t.Keys, kv[i].(string))
		t.Vals = append(t.Vals, kv[i+1].(*T))
	}
	t.sortProps()
	return t
}

func (t *T) sortProps() {
	idx := make([]int, len(t.Keys))
	for i := range idx {
		idx[i] = i
	}
	sort.Slice(idx, func(a, b int) bool { return t.Keys[idx[a]] < t.Keys[idx[b]] })
	ks := make([]string, len(idx))
	vs := make([]*T, len(idx))
	for i, j := range idx {
		ks[i], vs[i] = t.Keys[j], t.Vals[j]
	}
	t.Keys, t.Vals = ks, vs
}

func (t *T) prop(k string) *T {
	for i, n := range t.Keys {
		if n == k {
			return t.Vals[i]
		}
	}
	return nil
}

// toAL builds a fresh actionlint type.
func (t *T) toAL() actionlint.ExprType {
	switch t.K {
	case kAny:
		return actionlint.AnyType{}
	case kNull:
		return actionlint.NullType{}
	case kNum:
		return actionlint.NumberType{}
	case kBool:
		return actionlint.BoolType{}
	case kStr:
		return actionlint.StringType{}
	case kObj:
		return t.toALObj()
	default:
		return &actionlint.ArrayType{Elem: t.Elem.toAL(), Deref: t.Deref}
	}
}

func (t *T) toALObj() *actionlint.ObjectType {
	p := make(map[string]actionlint.ExprType, len(t.Keys))
	for i, k := range t.Keys {
		p[k] = t.Vals[i].toAL()
	}
	var m actionlint.ExprType
	if t.Mapped != nil {
		m = t.Mapped.toAL()
	}
	return &actionlint.ObjectType{Props: p, Mapped: m}
}

// fromAL converts an actionlint type; props sorted by key.
func fromAL(x actionlint.ExprType) *T {
	switch x := x.(type) {
	case actionlint.AnyType:
		return tAny
	case actionlint.NullType:
		return tNull
	case actionlint.NumberType:
		return tNum
	case actionlint.BoolType:
		return tBool
	case actionlint.StringType:
		return tStr
	case *actionlint.ObjectType:
		t := &T{K: kObj}
		for _, k := range hx.SortedKeys(x.Props) {
			t.Keys = append(t.Keys, k)
			t.Vals = append(t.Vals, fromAL(x.Props[k]))
		}
		if x.Mapped != nil {
			t.Mapped = fromAL(x.Mapped)
		}
		return t
	case *actionlint.ArrayType:
		return &T{K: kArr, Elem: fromAL(x.Elem), Deref: x.Deref}
	default:
		panic(fmt.Sprintf("unknown ExprType %T", x))
	}
}

// sameDeref reports whether the Deref flags reachable in x still equal those of t
// (x was built from t; detects the in-place mutation of defect #10).
func sameDeref(t *T, x actionlint.ExprType) bool {
	switch x := x.(type) {
	case *actionlint.ObjectType:
		if t.K != kObj {
			return true
		}
		for i, k := range t.Keys {
			if p, ok := x.Props[k]; ok && !sameDeref(t.Vals[i], p) {
				return false
			}
		}
		if t.Mapped != nil && x.Mapped != nil {
			return sameDeref(t.Mapped, x.Mapped)
		}
		return true
	case *actionlint.ArrayType:
		if t.K != kArr {
			return true
		}
		return t.Deref == x.Deref && sameDeref(t.Elem, x.Elem)
	}
	return true
}

func (t *T) coq() string {
	switch t.K {
	case kAny:
		return "TAny"
	case kNull:
		return "TNull"
	case kNum:
		return "TNum"
	case kBool:
		return "TBool"
	case kStr:
		return "TStr"
	case kObj:
		ps := make([]string, len(t.Keys))
		for i, k := range t.Keys {
			ps[i] = "(" + hx.CoqStr(k) + "," + t.Vals[i].coq() + ")"
		}
		m := "None"
		if t.Mapped != nil {
			m = "(Some " + t.Mapped.coq() + ")"
		}
		return "(TObj " + hx.CoqList(ps) + " " + m + ")"
	default:
		return "(TArr " + t.Elem.coq() + " " + hx.CoqBool(t.Deref) + ")"
	}
}

func (t *T) String() string {
	switch t.K {
	case kAny:
		return "any"
	case kNull:
		return "null"
	case kNum:
		return "number"
	case kBool:
		return "bool"
	case kStr:
		return "string"
	case kObj:
		ps := make([]string, len(t.Keys))
		for i, k := range t.Keys {
			ps[i] = k + ": " + t.Vals[i].String()
		}
		s := "{" + strings.Join(ps, "; ") + "}"
		if t.Mapped != nil {
			s += "=>" + t.Mapped.String()
		}
		return s
	default:
		d := ""
		if t.Deref {
			d = "*"
		}
		return "array" + d + "<" + t.Elem.String() + ">"
	}
}

// loosenings returns every single-point loosening of t: one type occurrence
// replaced by any, or one closed object opened.  Each comes with a path label.
func (t *T) loosenings(path string) []loosened {
	var out []loosened
	if t.K != kAny {
		out = append(out, loosened{tAny, path + "->any"})
	}
	switch t.K {
	case kObj:
		if t.Mapped == nil {
			c := *t
			c.Mapped = tAny
			out = append(out, loosened{&c, path + "->open"})
		} else {
			for _, l := range t.Mapped.loosenings(path + "{=>}") {
				c := *t
				c.Mapped = l.t
				out = append(out, loosened{&c, l.what})
			}
		}
		for i, k := range t.Keys {
			for _, l := range t.Vals[i].loosenings(path + "." + k) {
				c := *t
				c.Vals = append([]*T(nil), t.Vals...)
				c.Vals[i] = l.t
				out = append(out, loosened{&c, l.what})
			}
		}
	case kArr:
		for _, l := range t.Elem.loosenings(path + "[]") {
			c := *t
			c.Elem = l.t
			out = append(out, loosened{&c, l.what})
		}
	}
	return out
}

type loosened struct {
	t    *T
	what string
}
