// Command c16: correspondence and oracle harness for property C16 (every
// output format renders the diagnostics faithfully, one per line).
//
// Part A  workflows that echo hostile strings (line breaks, control, non-ASCII,
//
//	quotes, " [") at many echo sites, linted through the library API and
//	through actionlint.Command.Main in the modes default, -oneline,
//	-oneline -color, -format '{{json .}}', -format with fields; stdout is
//	parsed back (shipped problem-matcher pattern with Go regexp, JSON
//	decoder) and compared with the library's []*Error.
//
// Part B  the snippet renderer (PrettyPrint, GetTemplateFields) on all
//
//	(line, col) in [-1, len+2]^2 for a pool of sources, with recover.
//
// Part C  the shipped pattern on real and synthetic header lines.
// Model inputs go to cases_render.txt / cases_sweep.txt / cases_matcher.txt.
package main

import (
	"bytes"
	"encoding/hex"
	"encoding/json"
	"flag"
	"fmt"
	"io"
	"os"
	"path/filepath"
	"regexp"
	"sort"
	"strings"
	"unicode/utf8"

	"github.com/mattn/go-runewidth"
	"github.com/rhysd/actionlint"

	"verifharness/hx"
)

// ---- hostile strings ----------------------------------------------------------

type hostile struct {
	Name string
	S    string
}

var hostiles = []hostile{
	{"lf", "a\nb"},
	{"crlf", "x\r\ny"},
	{"lf-end", "tail\n"},
	{"two-lf", "p\n\nq"},
	{"quote-lf", "say \"hi\"\nthere"},
	{"uescape", `\u003cb\u003e \u0026 <&>`}, // the six characters of a JSON escape, as text
	{"tab", "t\tu"},
	{"esc", "e\x1b[31mred"},
	{"ctl", "c\x01d"},
	{"cjk", "日本語"},
	{"emoji", "e😀f"},
	{"quote", `q"r`},
	{"bracket", "s [t] u"},
	{"backslash", `b\n`},
	{"colon", "k: v; w"},
	{"nel", "n\u0085l\u2028m"},
	{"cr", "a\rb"},
	{"ps", "p\u2029s"},
	{"plain", "plain"},
}

// yamlDQ writes s as a double-quoted YAML scalar.
func yamlDQ(s string) string {
	var b strings.Builder
	b.WriteByte('"')
	for _, r := range s {
		switch {
		case r == '"':
			b.WriteString(`\"`)
		case r == '\\':
			b.WriteString(`\\`)
		case r == '\n':
			b.WriteString(`\n`)
		case r == '\r':
			b.WriteString(`\r`)
		case r == '\t':
			b.WriteString(`\t`)
		case r == 0x1b:
			b.WriteString(`\e`)
		case r < 0x20:
			fmt.Fprintf(&b, `\x%02x`, r)
		case r == 0x85:
			b.WriteString(`\N`)
		case r == 0x2028:
			b.WriteString(`\L`)
		case r == 0x2029:
			b.WriteString(`\P`)
		default:
			b.WriteRune(r)
		}
	}
	b.WriteByte('"')
	return b.String()
}

// exprStr writes s as a string literal of the expression language inside a
// double-quoted YAML scalar (so that raw control characters reach the lexer).
func exprStr(s string) string { return strings.ReplaceAll(s, "'", "''") }

// ---- echo sites ------------------------------------------------------------------

type site struct {
	Name string
	Tmpl string // @Q@ = hostile string as double-quoted YAML scalar; @R@ = raw inside an outer double-quoted scalar
	// other files of the scratch repository (root-relative path -> template): local action metadata,
	// a local reusable workflow
	Extra map[string]string
}

const hdr = "on: push\njobs:\n  test:\n    runs-on: ubuntu-latest\n    steps:\n"

var sites = []site{
	// no diagnostic at all: every mode renders the EMPTY list ("[]" for {{json .}})
	{Name: "clean-workflow-name", Tmpl: "name: @Q@\non: push\njobs:\n  test:\n    runs-on: ubuntu-latest\n    steps:\n      - run: echo\n"},
	{Name: "job-id", Tmpl: "on: push\njobs:\n  @Q@:\n    runs-on: ubuntu-latest\n    steps:\n      - run: echo\n"},
	{Name: "step-id", Tmpl: hdr + "      - id: @Q@\n        run: echo\n      - run: echo ${{ steps.nope.outputs.x }}\n"},
	{Name: "step-id-dup", Tmpl: hdr + "      - id: @Q@\n        run: echo\n      - id: @Q@\n        run: echo\n"},
	{Name: "matrix-key", Tmpl: "on: push\njobs:\n  test:\n    runs-on: ubuntu-latest\n    strategy:\n      matrix:\n        @Q@: [1, 2]\n    steps:\n      - run: echo ${{ matrix.nope }}\n"},
	{Name: "matrix-value-dup", Tmpl: "on: push\njobs:\n  test:\n    runs-on: ubuntu-latest\n    strategy:\n      matrix:\n        os: [@Q@, @Q@]\n    steps:\n      - run: echo\n"},
	// a file of zero bytes (one diagnostic, no source line to show) and one of blank lines only
	{Name: "empty-file", Tmpl: ""},
	{Name: "blank-file", Tmpl: "\n\n"},
	{Name: "matrix-key-listed", Tmpl: "on: push\njobs:\n  test:\n    runs-on: ubuntu-latest\n    strategy:\n      matrix:\n        @Q@: [1]\n        other: [2]\n        exclude:\n          - target: 1\n    steps:\n      - run: echo\n"},
	{Name: "matrix-exclude-key", Tmpl: "on: push\njobs:\n  test:\n    runs-on: ubuntu-latest\n    strategy:\n      matrix:\n        os: [a]\n        exclude:\n          - @Q@: b\n    steps:\n      - run: echo\n"},
	{Name: "matrix-exclude-value", Tmpl: "on: push\njobs:\n  test:\n    runs-on: ubuntu-latest\n    strategy:\n      matrix:\n        os: [a]\n        exclude:\n          - os: @Q@\n    steps:\n      - run: echo\n"},
	{Name: "runner-label", Tmpl: "on: push\njobs:\n  test:\n    runs-on: @Q@\n    steps:\n      - run: echo\n"},
	{Name: "runner-label-conflict", Tmpl: "on: push\njobs:\n  test:\n    runs-on: [ubuntu-latest, windows-latest, @Q@]\n    steps:\n      - run: echo\n"},
	{Name: "cron", Tmpl: "on:\n  schedule:\n    - cron: @Q@\njobs:\n  test:\n    runs-on: ubuntu-latest\n    steps:\n      - run: echo\n"},
	{Name: "cron-descriptor", Tmpl: "on:\n  schedule:\n    - cron: \"@@R@\"\njobs:\n  test:\n    runs-on: ubuntu-latest\n    steps:\n      - run: echo\n"},
	{Name: "cron-tz", Tmpl: "on:\n  schedule:\n    - cron: \"TZ=Asia/To@R@kyo 0 0 * * *\"\njobs:\n  test:\n    runs-on: ubuntu-latest\n    steps:\n      - run: echo\n"},
	{Name: "cron-crontz", Tmpl: "on:\n  schedule:\n    - cron: \"CRON_TZ=@R@ 0 0 * * *\"\njobs:\n  test:\n    runs-on: ubuntu-latest\n    steps:\n      - run: echo\n"},
	{Name: "cron-field", Tmpl: "on:\n  schedule:\n    - cron: \"0 0 * * @R@\"\njobs:\n  test:\n    runs-on: ubuntu-latest\n    steps:\n      - run: echo\n"},
	{Name: "service-credentials", Tmpl: "on: push\njobs:\n  test:\n    runs-on: ubuntu-latest\n    services:\n      @Q@:\n        image: x\n        credentials:\n          username: u\n          password: literal\n    steps:\n      - run: echo\n"},
	{Name: "container-credentials-literal", Tmpl: "on: push\njobs:\n  test:\n    runs-on: ubuntu-latest\n    container:\n      image: @Q@\n      credentials:\n        username: u\n        password: literal\n    steps:\n      - run: echo\n"},
	{Name: "shell", Tmpl: hdr + "      - run: echo\n        shell: @Q@\n"},
	{Name: "defaults-shell", Tmpl: "on: push\ndefaults:\n  run:\n    shell: @Q@\njobs:\n  test:\n    runs-on: ubuntu-latest\n    steps:\n      - run: echo\n"},
	{Name: "branch-filter", Tmpl: "on:\n  push:\n    branches: [@Q@, \"^bad\"]\njobs:\n  test:\n    runs-on: ubuntu-latest\n    steps:\n      - run: echo\n"},
	{Name: "path-filter", Tmpl: "on:\n  push:\n    paths: [@Q@, \" lead\"]\njobs:\n  test:\n    runs-on: ubuntu-latest\n    steps:\n      - run: echo\n"},
	{Name: "uses-spec", Tmpl: hdr + "      - uses: @Q@\n"},
	{Name: "uses-docker-tag", Tmpl: hdr + "      - uses: \"docker://exa mple%zz:@R@\"\n"},
	{Name: "uses-docker-uri", Tmpl: hdr + "      - uses: \"docker://%zz@R@\"\n"},
	{Name: "uses-local-action", Tmpl: hdr + "      - uses: \"./act/@R@\"\n"},
	{Name: "uses-reusable-local", Tmpl: "on: push\njobs:\n  call:\n    uses: \"./.github/workflows/@R@.yml\"\n"},
	{Name: "uses-reusable-spec", Tmpl: "on: push\njobs:\n  call:\n    uses: @Q@\n"},
	{Name: "unexpected-key", Tmpl: hdr + "      - run: echo\n        @Q@: 1\n"},
	{Name: "unexpected-key-top", Tmpl: "on: push\n@Q@: 1\njobs:\n  test:\n    runs-on: ubuntu-latest\n    steps:\n      - run: echo\n"},
	{Name: "env-name", Tmpl: hdr + "      - run: echo\n        env:\n          @Q@: 1\n"},
	{Name: "permission-scope", Tmpl: "on: push\npermissions:\n  @Q@: read\njobs:\n  test:\n    runs-on: ubuntu-latest\n    steps:\n      - run: echo\n"},
	{Name: "permission-value", Tmpl: "on: push\npermissions:\n  contents: @Q@\njobs:\n  test:\n    runs-on: ubuntu-latest\n    steps:\n      - run: echo\n"},
	{Name: "permission-all", Tmpl: "on: push\npermissions: @Q@\njobs:\n  test:\n    runs-on: ubuntu-latest\n    steps:\n      - run: echo\n"},
	{Name: "event-name", Tmpl: "on: [push, @Q@]\njobs:\n  test:\n    runs-on: ubuntu-latest\n    steps:\n      - run: echo\n"},
	{Name: "event-name-map", Tmpl: "on:\n  @Q@:\njobs:\n  test:\n    runs-on: ubuntu-latest\n    steps:\n      - run: echo\n"},
	{Name: "event-name-map-scalar", Tmpl: "on:\n  @Q@: 1\njobs:\n  test:\n    runs-on: ubuntu-latest\n    steps:\n      - run: echo\n"},
	{Name: "event-name-map-dup-key", Tmpl: "on:\n  @Q@:\n    branches: a\n    branches: b\n    nope: c\njobs:\n  test:\n    runs-on: ubuntu-latest\n    steps:\n      - run: echo\n"},
	{Name: "event-name-map-seq", Tmpl: "on:\n  @Q@: [a]\njobs:\n  test:\n    runs-on: ubuntu-latest\n    steps:\n      - run: echo\n"},
	{Name: "event-type", Tmpl: "on:\n  issues:\n    types: [@Q@]\njobs:\n  test:\n    runs-on: ubuntu-latest\n    steps:\n      - run: echo\n"},
	{Name: "action-input", Tmpl: hdr + "      - uses: actions/checkout@v4\n        with:\n          @Q@: 1\n"},
	{Name: "needs", Tmpl: "on: push\njobs:\n  test:\n    needs: [@Q@]\n    runs-on: ubuntu-latest\n    steps:\n      - run: echo\n"},
	{Name: "needs-dup", Tmpl: "on: push\njobs:\n  a:\n    runs-on: ubuntu-latest\n    steps:\n      - run: echo\n  test:\n    needs: [a, A, @Q@, @Q@]\n    runs-on: ubuntu-latest\n    steps:\n      - run: echo\n"},
	{Name: "expr-string-index", Tmpl: hdr + "      - run: \"echo ${{ github['@R@'] }}\"\n"},
	{Name: "expr-raw", Tmpl: hdr + "      - run: \"echo ${{ @R@ }}\"\n"},
	{Name: "expr-func", Tmpl: hdr + "      - run: \"echo ${{ fn@R@('x') }}\"\n"},
	{Name: "expr-format", Tmpl: hdr + "      - run: \"echo ${{ format('{0} {9} @R@', 1) }}\"\n"},
	{Name: "if-cond", Tmpl: hdr + "      - run: echo\n        if: @Q@\n"},
	{Name: "timeout", Tmpl: "on: push\njobs:\n  test:\n    runs-on: ubuntu-latest\n    timeout-minutes: !!float @Q@\n    steps:\n      - run: echo\n"},
	{Name: "max-parallel", Tmpl: "on: push\njobs:\n  test:\n    runs-on: ubuntu-latest\n    strategy:\n      max-parallel: !!int @Q@\n      matrix:\n        a: [1]\n    steps:\n      - run: echo\n"},
	{Name: "bool", Tmpl: hdr + "      - run: echo\n        continue-on-error: !!bool @Q@\n"},
	// explicit tags (their %XX escapes are decoded by the YAML parser) at typed positions
	{Name: "bool-tag", Tmpl: hdr + "      - run: echo\n        continue-on-error: !x@T@ yes\n"},
	{Name: "int-tag", Tmpl: "on: push\njobs:\n  test:\n    runs-on: ubuntu-latest\n    strategy:\n      max-parallel: !x@T@ 2\n      matrix:\n        a: [1]\n    steps:\n      - run: echo\n"},
	{Name: "float-tag", Tmpl: "on: push\njobs:\n  test:\n    runs-on: ubuntu-latest\n    timeout-minutes: !x@T@ 2\n    steps:\n      - run: echo\n"},
	{Name: "string-tag", Tmpl: hdr + "      - run: !x@T@ [a]\n"},
	// job ids echoed by the cyclic-dependency diagnostic
	{Name: "needs-cycle", Tmpl: "on: push\njobs:\n  @Q@:\n    needs: [b]\n    runs-on: ubuntu-latest\n    steps:\n      - run: echo\n  b:\n    needs: [@Q@]\n    runs-on: ubuntu-latest\n    steps:\n      - run: echo\n"},
	{Name: "needs-self", Tmpl: "on: push\njobs:\n  @Q@:\n    needs: [@Q@]\n    runs-on: ubuntu-latest\n    steps:\n      - run: echo\n"},
	{Name: "dispatch-input-type", Tmpl: "on:\n  workflow_dispatch:\n    inputs:\n      a:\n        type: @Q@\njobs:\n  test:\n    runs-on: ubuntu-latest\n    steps:\n      - run: echo\n"},
	{Name: "dispatch-input-name", Tmpl: "on:\n  workflow_dispatch:\n    inputs:\n      @Q@:\n        type: string\njobs:\n  test:\n    runs-on: ubuntu-latest\n    steps:\n      - run: echo ${{ inputs.nope }}\n"},
	{Name: "dispatch-choice-default", Tmpl: "on:\n  workflow_dispatch:\n    inputs:\n      a:\n        type: choice\n        options: [x, x]\n        default: @Q@\njobs:\n  test:\n    runs-on: ubuntu-latest\n    steps:\n      - run: echo\n"},
	{Name: "call-input-name", Tmpl: "on:\n  workflow_call:\n    inputs:\n      @Q@:\n        type: string\n    secrets:\n      @Q@:\njobs:\n  test:\n    runs-on: ubuntu-latest\n    steps:\n      - run: echo ${{ inputs.nope }} ${{ secrets.nope2 }}\n"},
	{Name: "call-input-type", Tmpl: "on:\n  workflow_call:\n    inputs:\n      a:\n        type: @Q@\njobs:\n  test:\n    runs-on: ubuntu-latest\n    steps:\n      - run: echo\n"},
	{Name: "service-name", Tmpl: "on: push\njobs:\n  test:\n    runs-on: ubuntu-latest\n    services:\n      @Q@:\n        image: x\n    steps:\n      - run: echo ${{ job.services.nope }}\n"},
	{Name: "job-output", Tmpl: "on: push\njobs:\n  a:\n    runs-on: ubuntu-latest\n    outputs:\n      @Q@: x\n    steps:\n      - run: echo\n  test:\n    needs: a\n    runs-on: ubuntu-latest\n    steps:\n      - run: echo ${{ needs.a.outputs.nope }}\n"},
	{Name: "env-expr-key", Tmpl: hdr + "      - run: echo ${{ env.nope.x }}\n        env:\n          @Q@: 1\n"},
	{Name: "deprecated-command", Tmpl: hdr + "      - run: @Q@\n"},
	{Name: "workflow-name-key", Tmpl: "name: x\non: push\nrun-name: ${{ @Q@ }}\njobs:\n  test:\n    runs-on: ubuntu-latest\n    steps:\n      - run: echo\n"},
	{Name: "container-cred", Tmpl: "on: push\njobs:\n  test:\n    runs-on: ubuntu-latest\n    container:\n      image: x\n      credentials:\n        username: u\n        password: @Q@\n    steps:\n      - run: echo\n"},
	{Name: "concurrency-key", Tmpl: "on: push\nconcurrency:\n  group: x\n  @Q@: y\njobs:\n  test:\n    runs-on: ubuntu-latest\n    steps:\n      - run: echo\n"},
	{Name: "local-action-metadata-type", Tmpl: hdr + "      - uses: ./act/meta\n",
		Extra: map[string]string{"act/meta/action.yml": "name: a\ndescription: d\ninputs:\n  x:\n    required: @Q@\n    description: d\nruns:\n  using: node20\n  main: index.js\n", "act/meta/index.js": ""}},
	{Name: "local-action-metadata-types", Tmpl: hdr + "      - uses: ./act/meta\n",
		Extra: map[string]string{"act/meta/action.yml": "name: a\ndescription: d\ninputs:\n  x:\n    required: @Q@\n  y:\n    required: @Q@\nruns:\n  using: [@Q@]\n  main: index.js\n", "act/meta/index.js": ""}},
	{Name: "local-action-metadata-syntax", Tmpl: hdr + "      - uses: ./act/meta\n",
		Extra: map[string]string{"act/meta/action.yml": "name: a\ninputs:\n  @Q@: @Q@: [\n"}},
	{Name: "local-action-name", Tmpl: hdr + "      - uses: ./act/meta\n        with:\n          nope: 1\n",
		Extra: map[string]string{"act/meta/action.yml": "name: @Q@\ndescription: d\ninputs:\n  @Q@:\n    description: d\nruns:\n  using: node20\n  main: index.js\n", "act/meta/index.js": ""}},
	{Name: "reusable-workflow-metadata-type", Tmpl: "on: push\njobs:\n  call:\n    uses: ./.github/workflows/callee.yml\n",
		Extra: map[string]string{".github/workflows/callee.yml": "on:\n  workflow_call:\n    inputs:\n      x:\n        type: string\n        required: @Q@\njobs:\n  j:\n    runs-on: ubuntu-latest\n    steps:\n      - run: echo\n"}},
	{Name: "reusable-workflow-metadata-syntax", Tmpl: "on: push\njobs:\n  call:\n    uses: ./.github/workflows/callee.yml\n",
		Extra: map[string]string{".github/workflows/callee.yml": "on:\n  workflow_call:\n    inputs:\n      @Q@: @Q@: [\n"}},
	{Name: "yaml-error", Tmpl: "on: push\njobs:\n  test:\n    runs-on: ubuntu-latest\n    steps:\n      - run: @Q@: @Q@\n   bad: [\n"},
	{Name: "yaml-tag", Tmpl: "on: push\njobs:\n  test: !@R@ x\n"},
	{Name: "anchor", Tmpl: "on: push\njobs:\n  test:\n    runs-on: *@R@\n"},
}

// yamlTagEscape: the hostile string as part of a YAML tag (every byte outside [A-Za-z0-9] as %XX:
// the parser decodes the escapes, so the tag the diagnostics echo holds the raw bytes)
func yamlTagEscape(h string) string {
	var b strings.Builder
	for i := 0; i < len(h); i++ {
		c := h[i]
		if c >= 'a' && c <= 'z' || c >= 'A' && c <= 'Z' || c >= '0' && c <= '9' {
			b.WriteByte(c)
		} else {
			fmt.Fprintf(&b, "%%%02X", c)
		}
	}
	return b.String()
}

func renderTmpl(t, h string) string {
	t = strings.ReplaceAll(t, "@T@", yamlTagEscape(h))
	t = strings.ReplaceAll(t, "@Q@", yamlDQ(h))
	inner := yamlDQ(h)
	inner = inner[1 : len(inner)-1]
	return strings.ReplaceAll(t, "@R@", inner)
}

func (s *site) render(h string) string { return renderTmpl(s.Tmpl, h) }

// writeExtra (re)creates the other files of the site; files of other sites are removed
func (l *layout) writeExtra(s *site, h string) {
	for _, d := range []string{"act"} {
		os.RemoveAll(filepath.Join(l.root, d))
	}
	os.Remove(filepath.Join(l.root, ".github", "workflows", "callee.yml"))
	for rel, t := range s.Extra {
		p := filepath.Join(l.root, filepath.FromSlash(rel))
		must(os.MkdirAll(filepath.Dir(p), 0o755))
		must(os.WriteFile(p, []byte(renderTmpl(t, h)), 0o644))
	}
}

// ---- scratch repository ---------------------------------------------------------

type layout struct{ base, root, wf string }

var theLayout *layout

func must(err error) {
	if err != nil {
		if theLayout != nil {
			theLayout.cleanup()
		}
		hx.Must(err)
	}
}

func mkLayout() *layout {
	base := fmt.Sprintf("/var/tmp/out-c16-%d", os.Getpid())
	hx.Must(os.RemoveAll(base))
	l := &layout{base: base, root: filepath.Join(base, "repo")}
	l.wf = filepath.Join(l.root, ".github", "workflows", "t.yml")
	theLayout = l
	must(os.MkdirAll(filepath.Join(l.root, ".git"), 0o755))
	must(os.MkdirAll(filepath.Dir(l.wf), 0o755))
	must(os.Chdir(l.root))
	return l
}

func (l *layout) cleanup() { os.Chdir("/"); os.RemoveAll(l.base) }

const relWf = ".github/workflows/t.yml"

func runMain(args ...string) (string, int) {
	var out, errb bytes.Buffer
	cmd := actionlint.Command{Stdin: strings.NewReader(""), Stdout: &out, Stderr: &errb}
	st := cmd.Main(append([]string{"actionlint", "-shellcheck=", "-pyflakes="}, args...))
	return out.String(), st
}

// runMainStdin: the workflow arrives on stdin under the name of the file
func runMainStdin(src string, args ...string) (string, int) {
	var out, errb bytes.Buffer
	cmd := actionlint.Command{Stdin: strings.NewReader(src), Stdout: &out, Stderr: &errb}
	st := cmd.Main(append(append([]string{"actionlint", "-shellcheck=", "-pyflakes=", "-stdin-filename", relWf}, args...), "-"))
	return out.String(), st
}

// ---- oracle helpers --------------------------------------------------------------

type jerr struct {
	Message   string `json:"message"`
	Filepath  string `json:"filepath"`
	Line      int    `json:"line"`
	Column    int    `json:"column"`
	Kind      string `json:"kind"`
	Snippet   string `json:"snippet"`
	EndColumn int    `json:"end_column"`
}

type failure struct {
	What     string            `json:"what"`
	Key      string            `json:"key"`
	Site     string            `json:"site,omitempty"`
	Hostile  string            `json:"hostile,omitempty"`
	Workflow string            `json:"workflow,omitempty"`
	Extra    map[string]string `json:"extra_files,omitempty"`
	Mode     string            `json:"mode,omitempty"`
	Detail   string            `json:"detail,omitempty"`
	Source   string            `json:"source,omitempty"`
	Line     int               `json:"line,omitempty"`
	Col      int               `json:"col,omitempty"`
}

func msgClass(m string) string {
	if i := strings.IndexAny(m, "\"'`"); i >= 0 {
		m = m[:i]
	}
	if len(m) > 40 {
		m = m[:40]
	}
	return strings.Map(func(r rune) rune {
		if r < 0x20 || r > 0x7e {
			return '?'
		}
		return r
	}, strings.TrimSpace(m))
}

// refLine is the reference for "the referenced source line": the text between
// the (line-1)th and line-th line feed, without a trailing carriage return.
func refLine(src string, line int) (string, bool) {
	if line < 1 || src == "" {
		return "", false
	}
	ls := strings.Split(src, "\n")
	if strings.HasSuffix(src, "\n") {
		ls = ls[:len(ls)-1]
	}
	if line > len(ls) {
		return "", false
	}
	return strings.TrimSuffix(ls[line-1], "\r"), true
}

var ansi = regexp.MustCompile("\x1b\\[\\d+m")

// checkSnippet checks the three snippet lines printed for (line, col) against
// the property: the source line itself, caret under the reported column.
func checkSnippet(src string, line, col int, l1, l2, l3 string) string {
	want, ok := refLine(src, line)
	if !ok {
		return "snippet shown although the position has no source line"
	}
	lnum := fmt.Sprintf("%d | ", line)
	if !strings.HasPrefix(l2, lnum) || l2[len(lnum):] != want {
		return fmt.Sprintf("snippet line %q is not the referenced source line %q", l2, want)
	}
	indent := strings.Repeat(" ", len(lnum)-2)
	if l1 != indent+"|" {
		return fmt.Sprintf("separator line %q", l1)
	}
	if !strings.HasPrefix(l3, indent+"| ") {
		return fmt.Sprintf("indicator line %q", l3)
	}
	ind := l3[len(indent)+2:]
	if col <= 0 {
		if ind != "" {
			return "indicator shown for a non-positive column"
		}
		return ""
	}
	if col-1 > len(want) {
		return "snippet shown although the column is beyond the line"
	}
	caret := strings.IndexByte(ind, '^')
	if caret < 0 || strings.Trim(ind[:caret], " ") != "" || strings.Trim(ind[caret+1:], "~") != "" {
		return fmt.Sprintf("malformed indicator %q", ind)
	}
	if caret != runewidth.StringWidth(want[:col-1]) {
		return fmt.Sprintf("caret at display column %d, the reported column %d is at display column %d", caret, col, runewidth.StringWidth(want[:col-1]))
	}
	return ""
}

func hexs(s string) string { return hx.CoqStr(hex.EncodeToString([]byte(s))) }

func coqZ(n int) string {
	if n < 0 {
		return fmt.Sprintf("(%d)%%Z", n)
	}
	return fmt.Sprintf("%d%%Z", n)
}

// widthTables returns Coq terms for RuneWidth of every rune decodable at any
// byte offset of src and StringWidth of every prefix of every line.
func widthTables(src string) (string, string) {
	runes := map[rune]bool{utf8.RuneError: true}
	for i := 0; i < len(src); i++ {
		r, _ := utf8.DecodeRuneInString(src[i:])
		runes[r] = true
	}
	var rs []int
	for r := range runes {
		rs = append(rs, int(r))
	}
	sort.Ints(rs)
	var rw []string
	for _, r := range rs {
		rw = append(rw, fmt.Sprintf("(%d%%N, %d)", r, runewidth.RuneWidth(rune(r))))
	}
	seen := map[string]bool{}
	var sw []string
	for _, ln := range strings.Split(src, "\n") {
		for _, l := range []string{ln, strings.TrimSuffix(ln, "\r")} {
			for i := 0; i <= len(l); i++ {
				p := l[:i]
				if !seen[p] {
					seen[p] = true
					sw = append(sw, fmt.Sprintf("(%s, %d)", hexs(p), runewidth.StringWidth(p)))
				}
			}
		}
	}
	return hx.CoqList(rw), hx.CoqList(sw)
}

func coqErrs(errs []*actionlint.Error) string {
	var es []string
	for _, e := range errs {
		es = append(es, fmt.Sprintf("(%s, %s, %s, %s, %s)", hexs(e.Message), hexs(e.Filepath), coqZ(e.Line), coqZ(e.Column), hexs(e.Kind)))
	}
	return hx.CoqList(es)
}

// ---- part A ------------------------------------------------------------------------

type partA struct {
	l        *layout
	re       *regexp.Regexp
	sum      *hx.Summary
	render   io.Writer
	lines    map[string]bool // ESC-free header lines for part C
	echoed   map[string]bool
	siteHits map[string]int
	nontriv  map[string]bool
}

func (a *partA) fail(f failure) { a.sum.OracleFails = append(a.sum.OracleFails, f) }

func (a *partA) eval(st *site, h hostile, emit bool) {
	src := st.render(h.S)
	must(os.WriteFile(a.l.wf, []byte(src), 0o644))
	a.l.writeExtra(st, h.S)
	// the library's []*Error
	lin, err := actionlint.NewLinter(io.Discard, &actionlint.LinterOptions{Shellcheck: "", Pyflakes: "", WorkingDir: a.l.root})
	must(err)
	errs, err := lin.LintFile(relWf, nil)
	a.sum.Evaluations++
	if err != nil {
		a.sum.Dist["fatal"]++
		return
	}
	a.sum.Dist[fmt.Sprintf("site:%s", st.Name)] += len(errs)
	mk := func(what, key, mode, detail string) failure {
		f := failure{What: what, Key: key, Site: st.Name, Hostile: h.Name, Workflow: src, Mode: mode, Detail: detail}
		if len(st.Extra) > 0 {
			f.Extra = map[string]string{}
			for rel, t := range st.Extra {
				f.Extra[rel] = renderTmpl(t, h.S)
			}
		}
		return f
	}
	multiline := false
	for _, e := range errs {
		probe := strings.Trim(fmt.Sprintf("%q", h.S), `"`)
		if strings.Contains(e.Message, h.S) || strings.Contains(e.Message, probe) {
			a.echoed[st.Name] = true
			a.nontriv[src] = true
		}
		// line breaks: LF, and what the consumers of the output take as one as well - CR, and the Unicode
		// line terminators NEL, LS, PS (the `.` of the ECMAScript pattern of the problem matcher stops at CR, LS, PS)
		if strings.ContainsAny(e.Message, lineBreaks) || strings.ContainsAny(e.Filepath, lineBreaks) || strings.ContainsAny(e.Kind, lineBreaks) {
			multiline = true
			a.fail(mk("a diagnostic message contains a line break", fmt.Sprintf("c16:newline-in-message:site=%s:class=%s", st.Name, msgClass(e.Message)), "library", fmt.Sprintf("%q", e.Message)))
		}
	}
	a.siteHits[st.Name] += len(errs)

	// -oneline
	one, status := runMain("-oneline", "-no-color", relWf)
	wantOne := ""
	for _, e := range errs {
		wantOne += e.Error() + "\n"
	}
	wantStatus := 0
	if len(errs) > 0 {
		wantStatus = 1
	}
	if status != wantStatus {
		a.fail(mk("exit status does not follow the number of diagnostics", "c16:exit", "oneline", fmt.Sprint(status)))
	}
	if one != wantOne {
		a.fail(mk("-oneline output is not the header of each diagnostic of the library API, in order", "c16:oneline-output:site="+st.Name, "oneline", fmt.Sprintf("%q", one)))
	}
	if !multiline {
		ls := strings.Split(strings.TrimSuffix(one, "\n"), "\n")
		if one == "" {
			ls = nil
		}
		if len(ls) != len(errs) {
			a.fail(mk(fmt.Sprintf("-oneline printed %d lines for %d diagnostics", len(ls), len(errs)), "c16:oneline-count:site="+st.Name, "oneline", ""))
		} else {
			for i, ln := range ls {
				a.checkMatcher(ln, errs[i], mk, "oneline")
				if !strings.Contains(ln, "\x1b") {
					a.lines[ln] = true
				}
			}
		}
		// -oneline -color: the pattern has to cope with the escape sequences
		col, _ := runMain("-oneline", "-color", relWf)
		// the reset sequence of the last piece follows the line feed, so every line
		// after the first starts with it and the output ends with it
		cls := strings.Split(col, "\n")
		if n := len(cls); n > 0 && ansi.ReplaceAllString(cls[n-1], "") == "" {
			cls = cls[:n-1]
		}
		if len(cls) != len(errs) {
			a.fail(mk(fmt.Sprintf("-oneline -color printed %d lines for %d diagnostics", len(cls), len(errs)), "c16:oneline-count-color:site="+st.Name, "oneline-color", ""))
		} else {
			for i, ln := range cls {
				if ansi.ReplaceAllString(ln, "") != errs[i].Error() && !strings.Contains(errs[i].Message, "\x1b") {
					a.fail(mk("coloured header differs from the plain one by more than colour sequences", "c16:color-header:site="+st.Name, "oneline-color", fmt.Sprintf("%q", ln)))
				}
				a.checkMatcher(ln, errs[i], mk, "oneline-color")
			}
		}
	}

	// -format '{{json .}}'
	js, _ := runMain("-format", "{{json .}}", relWf)
	var dec []jerr
	if derr := json.Unmarshal([]byte(js), &dec); derr != nil {
		a.fail(mk("-format '{{json .}}' output is not valid JSON: "+derr.Error(), "c16:json-invalid:site="+st.Name, "json", js))
	} else if len(dec) != len(errs) {
		a.fail(mk(fmt.Sprintf("JSON output has %d entries for %d diagnostics", len(dec), len(errs)), "c16:json-count:site="+st.Name, "json", ""))
	} else {
		for i, d := range dec {
			e := errs[i]
			tf := e.GetTemplateFields([]byte(src))
			// encoding/json replaces invalid UTF-8 by U+FFFD: compare through the same coercion
			if d.Message != strings.ToValidUTF8(e.Message, "\uFFFD") || d.Filepath != e.Filepath || d.Line != e.Line || d.Column != e.Column || d.Kind != e.Kind ||
				d.Snippet != strings.ToValidUTF8(tf.Snippet, "\uFFFD") || d.EndColumn != tf.EndColumn {
				a.fail(mk("JSON output does not round-trip the fields of the diagnostic", "c16:json-roundtrip:site="+st.Name, "json", fmt.Sprintf("%+v vs %+v", d, *e)))
			}
		}
	}

	// the same content read from stdin under the same name: same rendering in every mode
	for _, m := range [][]string{{"-format", "{{json .}}"}, {"-oneline", "-no-color"}, {"-no-color"}} {
		fo, fs := runMain(append(append([]string{}, m...), relWf)...)
		so, ss := runMainStdin(src, m...)
		if fo != so || fs != ss {
			a.fail(mk("the workflow read from stdin under the name of the file is rendered differently from the file ("+strings.Join(m, " ")+")", "c16:stdin-route:"+m[0]+":site="+st.Name, "stdin", fmt.Sprintf("file route (exit %d): %q\nstdin route (exit %d): %q", fs, fo, ss, so)))
			break
		}
	}

	// -format with fields
	ff, _ := runMain("-format", `{{range $e := .}}{{$e.Filepath}}:{{$e.Line}}:{{$e.Column}}: {{$e.Message}} [{{$e.Kind}}]\n{{end}}`, relWf)
	if ff != wantOne {
		a.fail(mk("-format with the header fields differs from the headers", "c16:format-fields:site="+st.Name, "format", fmt.Sprintf("%q", ff)))
	}

	// default mode (with snippets)
	def, _ := runMain("-no-color", relWf)
	if !multiline {
		if what := a.checkDefault(def, errs, src); what != "" {
			a.fail(mk(what, "c16:default-output:site="+st.Name, "default", fmt.Sprintf("%q", def)))
		}
	}

	if emit && len(errs) > 0 {
		rw, sw := widthTables(src)
		fmt.Fprintf(a.render, "(mkRc %s %s %s %s false %s, [[1%%N]])\n", coqErrs(errs), hexs(src), rw, sw, hexs(def))
		fmt.Fprintf(a.render, "(mkRc %s %s [] [] true %s, [[1%%N]])\n", coqErrs(errs), hexs(src), hexs(one))
	}
}

func fmtErrsC16(errs []*actionlint.Error) string {
	var b strings.Builder
	for _, e := range errs {
		fmt.Fprintf(&b, "%s\n", e.Error())
	}
	return b.String()
}

const lineBreaks = "\n\r\u0085\u2028\u2029"

func (a *partA) checkMatcher(ln string, e *actionlint.Error, mk func(what, key, mode, detail string) failure, mode string) {
	m := a.re.FindStringSubmatch(ln)
	ok := m != nil && m[1] == e.Filepath && m[2] == fmt.Sprint(e.Line) && m[3] == fmt.Sprint(e.Column) && m[4] == e.Message && m[5] == e.Kind
	// the pattern is an ECMAScript one: its `.` does not match CR, LS or PS (Go's stops at LF only)
	js := !strings.ContainsAny(ln, "\r\u2028\u2029")
	if ok && js {
		return
	}
	reason := "other"
	switch {
	case !js:
		reason = "header-contains-a-line-terminator-of-the-pattern-language"
	case mode == "oneline-color" && m != nil && m[1] != e.Filepath && ansi.ReplaceAllString(m[1], "") == e.Filepath &&
		m[2] == fmt.Sprint(e.Line) && m[3] == fmt.Sprint(e.Column) && m[4] == e.Message && m[5] == e.Kind:
		// every line after the first starts with the reset sequence of the previous line
		// followed by the colour of the file name; the pattern allows one sequence only
		reason = "color-mode-file-group-keeps-escape-sequence"
	case strings.Contains(e.Message, " ["):
		reason = `message-contains-" ["`
	case strings.Contains(e.Message, "\x1b["):
		reason = "message-contains-escape-sequence"
	}
	a.fail(mk("the shipped problem-matcher pattern does not parse the header back to the diagnostic", "c16:matcher-roundtrip:"+reason, mode, fmt.Sprintf("line %q groups %q", ln, m)))
}

// checkDefault walks the default-mode output: one header per diagnostic in
// order, each optionally followed by a three-line snippet that must be the
// referenced source line with the caret under the reported column.
func (a *partA) checkDefault(out string, errs []*actionlint.Error, src string) string {
	ls := strings.Split(out, "\n")
	if len(ls) > 0 && ls[len(ls)-1] == "" {
		ls = ls[:len(ls)-1]
	}
	i := 0
	sep := regexp.MustCompile(`^ *\|$`)
	for _, e := range errs {
		if i >= len(ls) || ls[i] != e.Error() {
			return fmt.Sprintf("header of %q missing or out of order", e.Error())
		}
		i++
		if i < len(ls) && sep.MatchString(ls[i]) {
			if i+2 >= len(ls) {
				return "truncated snippet"
			}
			if what := checkSnippet(src, e.Line, e.Column, ls[i], ls[i+1], ls[i+2]); what != "" {
				return what
			}
			i += 3
		}
	}
	if i != len(ls) {
		return fmt.Sprintf("%d extra output lines", len(ls)-i)
	}
	return ""
}

// ---- part B: snippet sweep ---------------------------------------------------------

var sweepPool = []string{
	"", "\n", "a", "ab\n", "ab\ncd", "ab\r\ncd\r\n", "a b\tc\n", "\tx y\n", "key: ${{ foo.bar }}\n", "\n\nz\n",
	"日本語 x\n", "a日b\n", "e\u0301 combining\n", "😀 e\n", "\xff\xfe bad\n", "a\xe3\x81 trunc\n", "x\r", "\r\n", "a  b\n", "tail \n",
	"\x1b[31m c\n", "a\x00b\n", "   \n", "~^|\n",
}

var sweepPoolThorough = []string{
	"on: push\njobs:\n  test:\n    runs-on: ubuntu-latest\n", "name: 日本語のワークフロー\non: push\n", "- run: echo ${{ github.event.issue.title }}\r\n  shell: bash\r\n",
	"a\n\xf0\x9f\x98\x80\xf0\x9f b\n\xed\xa0\x80 surrogate\n", "\xc0\xaf overlong\n\xf4\x90\x80\x80 big\n", "ｆｕｌｌ width text\n한국어 텍스트\n",
}

func hexOrBang(s string, panicked bool) string {
	if panicked {
		return `"!"`
	}
	return hexs(s)
}

func sweep(sum *hx.Summary, w io.Writer, src string) {
	n := len(src)
	var pts []string
	for line := -1; line <= n+2; line++ {
		for col := -1; col <= n+2; col++ {
			e := &actionlint.Error{Message: "msg", Filepath: "f.yml", Line: line, Column: col, Kind: "kind"}
			var buf bytes.Buffer
			ppPanic, tfPanic := false, false
			func() {
				defer func() {
					if r := recover(); r != nil {
						ppPanic = true
					}
				}()
				e.PrettyPrint(&buf, []byte(src))
			}()
			var tf *actionlint.ErrorTemplateFields
			func() {
				defer func() {
					if r := recover(); r != nil {
						tfPanic = true
					}
				}()
				tf = e.GetTemplateFields([]byte(src))
			}()
			sum.Evaluations++
			mk := func(what, key, detail string) failure {
				return failure{What: what, Key: key, Source: src, Line: line, Col: col, Detail: detail}
			}
			if ppPanic || tfPanic {
				sum.OracleFails = append(sum.OracleFails, mk("the snippet renderer panicked", fmt.Sprintf("c16:snippet-panic:pp=%v:tf=%v", ppPanic, tfPanic), ""))
			}
			snip, endc := "", 0
			if tf != nil {
				snip, endc = tf.Snippet, tf.EndColumn
			}
			if !ppPanic {
				out := buf.String()
				ls := strings.Split(strings.TrimSuffix(out, "\n"), "\n")
				if ls[0] != e.Error() {
					sum.OracleFails = append(sum.OracleFails, mk("PrettyPrint does not start with the header line", "c16:snippet-header", out))
				}
				switch len(ls) {
				case 1:
					sum.Dist["sweep:no-snippet"]++
				case 4:
					sum.Dist["sweep:snippet"]++
					if what := checkSnippet(src, line, col, ls[1], ls[2], ls[3]); what != "" {
						sum.OracleFails = append(sum.OracleFails, mk(what, "c16:snippet-wrong", out))
					}
					if !tfPanic {
						want, _ := refLine(src, line)
						if !strings.HasPrefix(snip, want) {
							sum.OracleFails = append(sum.OracleFails, mk("template snippet does not start with the referenced source line", "c16:snippet-template", snip))
						}
					}
				default:
					sum.OracleFails = append(sum.OracleFails, mk(fmt.Sprintf("PrettyPrint printed %d lines", len(ls)), "c16:snippet-shape", out))
				}
			}
			pts = append(pts, fmt.Sprintf("(%s, %s, %s, %s, %s)", coqZ(line), coqZ(col), hexOrBang(buf.String(), ppPanic), hexOrBang(snip, tfPanic), coqZ(endc)))
		}
	}
	rw, sw := widthTables(src)
	fmt.Fprintf(w, "(mkSc %s %s %s %s, [])\n", hexs(src), rw, sw, hx.CoqList(pts))
}

// longSources: sources larger than the line reader's buffer (4096 bytes, then doubled), with LF and
// CRLF line ends placed around the buffer boundaries; the snippet of every line (oracle only: the
// quadratic position sweep and the model evaluation are for the short sources)
func longSources(sum *hx.Summary) {
	for _, eol := range []string{"\n", "\r\n"} {
		for _, boundary := range []int{4096, 8192, 16384} {
			for d := -3; d <= 2; d++ {
				var b strings.Builder
				b.WriteString("# first" + eol)
				// one long comment line whose line end starts at boundary+d
				pad := boundary + d - b.Len()
				b.WriteString(strings.Repeat("x", pad) + eol)
				for i := 0; i < 12; i++ {
					fmt.Fprintf(&b, "key%d: value %d%s", i, i, eol)
				}
				src := b.String()
				nl := strings.Count(src, "\n")
				for line := 1; line <= nl; line++ {
					for _, col := range []int{1, 4} {
						e := &actionlint.Error{Message: "msg", Filepath: "f.yml", Line: line, Column: col, Kind: "kind"}
						var buf bytes.Buffer
						e.PrettyPrint(&buf, []byte(src))
						sum.Evaluations++
						sum.Dist["long_source_snippets"]++
						ls := strings.Split(strings.TrimSuffix(buf.String(), "\n"), "\n")
						what := ""
						if len(ls) != 4 {
							what = fmt.Sprintf("PrettyPrint printed %d lines for a position inside the source", len(ls))
						} else {
							what = checkSnippet(src, line, col, ls[1], ls[2], ls[3])
						}
						tf := e.GetTemplateFields([]byte(src))
						if want, _ := refLine(src, line); what == "" && !strings.HasPrefix(tf.Snippet, want) {
							what = "template snippet does not start with the referenced source line"
						}
						if what != "" {
							sum.OracleFails = append(sum.OracleFails, failure{What: what + " (source of " + fmt.Sprint(len(src)) + " bytes, line end " + fmt.Sprintf("%q", eol) + " at byte " + fmt.Sprint(boundary+d) + ")",
								Key: fmt.Sprintf("c16:snippet-wrong:long-source:eol=%q", eol), Source: src, Line: line, Col: col, Detail: buf.String()})
							break
						}
					}
				}
			}
		}
	}
}

// ---- part D: multi-file order ---------------------------------------------------------

var headRe = regexp.MustCompile(`^([^:\n]+\.yml):(\d+):(\d+): (.*) \[([a-z-]+)\]$`)

func partD(l *layout, sum *hx.Summary) {
	names := []string{"b.yml", "a.yml", "c.yml"}
	body := map[string]string{
		"a.yml": "on: push\njobs:\n  test:\n    runs-on: ubuntu-latest\n    steps:\n      - run: echo ${{ nope_a }}\n      - run: echo ${{ github.nope_a }}\n",
		"b.yml": "on: push\njobs:\n  test:\n    runs-on: bad-label-b\n    steps:\n      - run: echo ${{ nope_b }}\n",
		"c.yml": "on: push\njobs:\n  test:\n    runs-on: ubuntu-latest\n    steps:\n      - run: echo\n        shell: fish\n",
	}
	dir := filepath.Join(l.root, ".github", "workflows")
	for n, b := range body {
		must(os.WriteFile(filepath.Join(dir, n), []byte(b), 0o644))
	}
	defer func() {
		for n := range body {
			os.Remove(filepath.Join(dir, n))
		}
	}()
	orders := [][]int{{0, 1, 2}, {1, 0, 2}, {2, 0, 1}, {0, 2, 1}, {2, 1, 0}, {1, 2, 0}, {0, 1}, {2, 0}}
	tmpl := "{{range $ := .}}{{$.Filepath}}:{{$.Line}}:{{$.Column}}: {{$.Message}} [{{$.Kind}}]\n{{end}}"
	for _, ord := range orders {
		var files []string
		for k, i := range ord {
			f := filepath.Join(".github", "workflows", names[i])
			// spellings that are not canonical: the rendered file name is the one of the returned diagnostic
			switch (k + len(ord) + ord[0]) % 3 {
			case 1:
				f = "./" + f
			case 2:
				f = ".github/../.github/workflows//" + names[i]
			}
			files = append(files, f)
		}
		heads := func(out string) []string {
			var hs []string
			for _, ln := range strings.Split(out, "\n") {
				if headRe.MatchString(ln) {
					hs = append(hs, ln)
				}
			}
			return hs
		}
		for _, mode := range []string{"oneline", "default", "format"} {
			var ob bytes.Buffer
			opts := &actionlint.LinterOptions{Shellcheck: "", Pyflakes: "", WorkingDir: l.root, Color: actionlint.ColorOptionKindNever}
			switch mode {
			case "oneline":
				opts.Oneline = true
			case "format":
				opts.Format = tmpl
			}
			lin, err := actionlint.NewLinter(&ob, opts)
			must(err)
			errs, err := lin.LintFiles(files, nil)
			must(err)
			sum.Evaluations++
			sum.Dist["multi_file_order_runs"]++
			var want []string
			for _, e := range errs {
				want = append(want, e.Error())
			}
			got := heads(ob.String())
			mk := func(what, class string) failure {
				return failure{What: what, Key: fmt.Sprintf("c16:multi-file-order:%s:mode=%s", class, mode), Mode: mode, Detail: fmt.Sprintf("files=%v\nreturned:\n%s\nrendered:\n%s", files, strings.Join(want, "\n"), strings.Join(got, "\n"))}
			}
			if strings.Join(got, "\n") != strings.Join(want, "\n") {
				sum.OracleFails = append(sum.OracleFails, mk("the rendering of a multi-file run is not the list of diagnostics the library returns (same order, file name as given, position, message)", "rendered-vs-returned"))
			}
			// the returned diagnostics are grouped by file in argument order
			pos := map[string]int{}
			for i, f := range files {
				pos[f] = i
			}
			last := -1
			for _, e := range errs {
				p, ok := pos[e.Filepath]
				if !ok || p < last {
					sum.OracleFails = append(sum.OracleFails, mk("the diagnostics of a multi-file run are not grouped by file in the order the files were given", "argument-order"))
					break
				}
				last = p
			}
		}
		// the command line
		one, _ := runMain(append([]string{"-oneline", "-no-color"}, files...)...)
		fo, _ := runMain(append([]string{"-no-color", "-format", tmpl}, files...)...)
		sum.Evaluations += 2
		if a, b := heads(one), heads(fo); strings.Join(a, "\n") != strings.Join(b, "\n") {
			sum.OracleFails = append(sum.OracleFails, failure{What: "-oneline and -format render the diagnostics of a multi-file run in different orders", Key: "c16:multi-file-order:cli", Mode: "cli",
				Detail: fmt.Sprintf("files=%v\n-oneline:\n%s\n-format:\n%s", files, strings.Join(a, "\n"), strings.Join(b, "\n"))})
		}
	}
}

// ---- part C: matcher ----------------------------------------------------------------

func mutateLine(r *hx.Rng, ln string) string {
	frag := []string{" [", "]", ":", ": ", "1", "23", " ", "[", "x", ":4:5: ", " [k]", "\n", ""}
	b := []byte(ln)
	for k := 1 + r.Intn(3); k > 0; k-- {
		pos := r.Intn(len(b) + 1)
		switch r.Intn(3) {
		case 0:
			b = append(b[:pos:pos], append([]byte(r.Pick(frag)), b[pos:]...)...)
		case 1:
			if pos < len(b) {
				end := pos + 1 + r.Intn(4)
				if end > len(b) {
					end = len(b)
				}
				b = append(b[:pos:pos], b[end:]...)
			}
		default:
			if pos < len(b) {
				b[pos] = []byte(r.Pick(frag) + "z")[0]
			}
		}
	}
	return string(b)
}

func main() {
	seed := flag.Uint64("seed", 1, "PRNG seed")
	tier := flag.String("tier", "quick", "quick|thorough")
	extractFormats := flag.String("extract-formats", "", "translator mode: list the %s / %v arguments of the diagnostic formats of the package in this directory")
	genFormats := flag.String("gen", "GenFormats.v", "output of -extract-formats")
	out := flag.String("out", "", "output directory")
	repo := flag.String("repo", "/repo", "actionlint source tree (for .github/actionlint-matcher.json)")
	replay := flag.String("replay", "", "replay file")
	flag.Parse()
	if *extractFormats != "" {
		os.Exit(doExtractFormats(*extractFormats, *genFormats))
	}
	if *out != "" {
		*out, _ = filepath.Abs(*out)
	}
	if *replay != "" {
		*replay, _ = filepath.Abs(*replay)
	}

	// T: the shipped pattern of the current tree
	mb, err := os.ReadFile(filepath.Join(*repo, ".github", "actionlint-matcher.json"))
	hx.Must(err)
	var mj struct {
		ProblemMatcher []struct {
			Pattern []struct {
				Regexp                            string
				File, Line, Column, Message, Code int
			}
		}
	}
	hx.Must(json.Unmarshal(mb, &mj))
	pat := mj.ProblemMatcher[0].Pattern[0]
	re, err := regexp.Compile(pat.Regexp)
	hx.Must(err)

	l := mkLayout()
	defer l.cleanup()
	sum := hx.NewSummary("C16")
	a := &partA{l: l, re: re, sum: sum, lines: map[string]bool{}, echoed: map[string]bool{}, siteHits: map[string]int{}, nontriv: map[string]bool{}, render: io.Discard}

	if *replay != "" {
		b, err := os.ReadFile(*replay)
		must(err)
		var f failure
		must(json.Unmarshal(b, &f))
		if strings.HasPrefix(f.Key, "c16:multi-file-order") {
			partD(l, sum)
		} else if f.Workflow != "" {
			st := &site{Name: f.Site, Tmpl: f.Workflow, Extra: f.Extra}
			a.eval(st, hostile{Name: f.Hostile, S: "\x00unused"}, false)
		} else {
			sweep(sum, io.Discard, f.Source)
		}
		bad := 0
		for _, x := range sum.OracleFails {
			ff := x.(failure)
			if ff.Key == f.Key {
				fmt.Printf("%s\n  key=%s mode=%s\n  %s\n", ff.What, ff.Key, ff.Mode, ff.Detail)
				bad++
			}
		}
		if bad > 0 {
			fmt.Println("REPLAY: property violated")
			l.cleanup()
			os.Exit(1)
		}
		fmt.Println("REPLAY: property holds on this input")
		return
	}

	must(os.MkdirAll(*out, 0o755))
	if pat.File != 1 || pat.Line != 2 || pat.Column != 3 || pat.Message != 4 || pat.Code != 5 {
		sum.OracleFails = append(sum.OracleFails, failure{What: "group numbers of the shipped problem matcher changed", Key: "c16:matcher-groups"})
	}
	r := hx.NewRng(*seed)
	rf, err := os.Create(filepath.Join(*out, "cases_render.txt"))
	must(err)
	defer rf.Close()
	a.render = rf

	// part A
	for si := range sites {
		st := &sites[si]
		for hi, h := range hostiles {
			// quick: every site with the line-break strings and a rotating sample of the others
			if *tier != "thorough" && hi >= 6 && !strings.ContainsAny(h.S, lineBreaks) && (hi+si)%4 != 0 {
				continue
			}
			a.eval(st, h, *tier == "thorough" || (hi+si)%3 == 0)
		}
	}
	nEval := sum.Evaluations
	var silent []string
	for _, st := range sites {
		if !a.echoed[st.Name] {
			silent = append(silent, st.Name)
		}
	}
	sum.Extra["echo_sites"] = len(sites)
	sum.Extra["echo_sites_echoing"] = len(a.echoed)
	sum.Extra["echo_sites_not_echoing"] = silent
	sum.Extra["workflows"] = nEval

	// part F: the texts of the external tools (shellcheck's JSON message and level, a pyflakes line)
	// go into messages as well: stand-in tools that print line breaks inside them
	{
		td := filepath.Join(*out, "faketools")
		must(os.MkdirAll(td, 0o755))
		sc := filepath.Join(td, "shellcheck")
		must(os.WriteFile(sc, []byte("#!/bin/sh\ncat >/dev/null\nprintf '%s' '[{\"file\":\"-\",\"line\":2,\"endLine\":2,\"column\":1,\"endColumn\":2,\"level\":\"err\\u2028or\",\"code\":1000,\"message\":\"first line\\nsecond\\rthird\\u2029fourth.\"}]'\n"), 0o755))
		py := filepath.Join(td, "pyflakes")
		must(os.WriteFile(py, []byte("#!/bin/sh\ncat >/dev/null\nprintf '<stdin>:1:1: undefined\\rname \\342\\200\\250x\\n'\n"), 0o755))
		src := "on: push\njobs:\n  test:\n    runs-on: ubuntu-latest\n    steps:\n      - run: echo $FOO\n      - run: print(x)\n        shell: python\n"
		var ob bytes.Buffer
		lin, err := actionlint.NewLinter(&ob, &actionlint.LinterOptions{Shellcheck: sc, Pyflakes: py, Oneline: true, Color: actionlint.ColorOptionKindNever})
		must(err)
		errs, err := lin.Lint("tools.yml", []byte(src), nil)
		sum.Evaluations++
		sum.Dist["tool_text_runs"]++
		ntool := 0
		for _, e := range errs {
			if e.Kind == "shellcheck" || e.Kind == "pyflakes" {
				ntool++
				if strings.ContainsAny(e.Message, lineBreaks) {
					sum.OracleFails = append(sum.OracleFails, failure{What: "a diagnostic built from the output of an external tool contains a line break", Key: "c16:newline-in-message:tool=" + e.Kind, Workflow: src, Detail: fmt.Sprintf("%q", e.Message)})
				}
			}
		}
		if err != nil || ntool != 2 {
			sum.OracleFails = append(sum.OracleFails, failure{What: fmt.Sprintf("the stand-in tools did not yield one diagnostic each (%d, error %v)", ntool, err), Key: "c16:tool-text:harness", Workflow: src, Detail: fmtErrsC16(errs)})
		} else if n := strings.Count(ob.String(), "\n"); n != len(errs) {
			sum.OracleFails = append(sum.OracleFails, failure{What: fmt.Sprintf("-oneline output of %d diagnostics has %d lines", len(errs), n), Key: "c16:newline-in-message:tool-output", Workflow: src, Detail: fmt.Sprintf("%q", ob.String())})
		}
	}

	// part E: oneLine (the flattening of library error texts) against its model
	ef, err := os.Create(filepath.Join(*out, "cases_oneline.txt"))
	must(err)
	defer ef.Close()
	{
		r := hx.NewRng(*seed + 16)
		alphabet := []string{"a", " ", "\n", "\r", "\r\n", "\u0085", "\u2028", "\u2029", "日", ":", "\t", "\r\r\n", "\n\r"}
		var texts []string
		for _, h := range hostiles {
			texts = append(texts, h.S, "invalid: "+h.S+" end", h.S+h.S)
		}
		nE := 300
		if *tier == "thorough" {
			nE = 5000
		}
		for i := 0; i < nE; i++ {
			var b strings.Builder
			for j, n := 0, r.Intn(9); j < n; j++ {
				b.WriteString(r.Pick(alphabet))
			}
			texts = append(texts, b.String())
		}
		for _, t := range texts {
			got := actionlint.VerifOneLine(t)
			sum.Evaluations++
			sum.Dist["one_line_texts"]++
			if strings.ContainsAny(got, lineBreaks) {
				sum.OracleFails = append(sum.OracleFails, failure{What: "the flattened text of a library error still contains a line break", Key: "c16:one-line:break-left", Detail: fmt.Sprintf("input %q output %q", t, got)})
			}
			if !strings.ContainsAny(t, lineBreaks) && got != t {
				sum.OracleFails = append(sum.OracleFails, failure{What: "a text without line breaks is changed by the flattening", Key: "c16:one-line:changed", Detail: fmt.Sprintf("input %q output %q", t, got)})
			}
			cps := func(x string) string {
				var xs []string
				for _, c := range x {
					xs = append(xs, fmt.Sprint(int(c)))
				}
				return "[" + strings.Join(xs, "; ") + "]%N"
			}
			fmt.Fprintf(ef, "(%s, [%s])\n", cps(t), cps(got))
		}
	}

	// part B
	sf, err := os.Create(filepath.Join(*out, "cases_sweep.txt"))
	must(err)
	defer sf.Close()
	pool := sweepPool
	if *tier == "thorough" {
		pool = append(pool, sweepPoolThorough...)
	}
	for _, s := range pool {
		sweep(sum, sf, s)
	}
	longSources(sum)
	sum.Extra["sweep_sources"] = len(pool)
	sum.Extra["sweep_points"] = sum.Evaluations - nEval

	// part C
	mf, err := os.Create(filepath.Join(*out, "cases_matcher.txt"))
	must(err)
	defer mf.Close()
	real := hx.SortedKeys(a.lines)
	all := append([]string{}, real...)
	all = append(all, "f:1:2: m [k]", "a:b:1:2: m [k]", "f:1:2: m [k] [j]", "f:1:2: m [ [k]", "f:01:002: m  [k]]", "f:1:2:  [k]", ":1:2: m [k]", "f:1:2: m []", "f:1:2: m [k]\n", "f:1:2: a\nb [k]", "f:-1:2: m [k]", "f:1:2:m [k]", "f:1:2: found 4: [0 */3 * *] [events]")
	nm := 1500
	if *tier == "thorough" {
		nm = 20000
	}
	for i := 0; i < nm && len(real) > 0; i++ {
		all = append(all, mutateLine(r, real[r.Intn(len(real))]))
	}
	var items []string
	nmatch := 0
	for _, ln := range all {
		if strings.Contains(ln, "\x1b") || !utf8.ValidString(ln) {
			continue
		}
		m := re.FindStringSubmatch(ln)
		want := "None"
		if m != nil {
			nmatch++
			want = fmt.Sprintf("(Some (%s, %s, %s, %s, %s))", hexs(m[1]), hexs(m[2]), hexs(m[3]), hexs(m[4]), hexs(m[5]))
		}
		items = append(items, fmt.Sprintf("(%s, %s)", hexs(ln), want))
		if len(items) == 200 {
			fmt.Fprintf(mf, "(mkMc %s %s, [])\n", hx.CoqStr(pat.Regexp), hx.CoqList(items))
			items = nil
		}
	}
	fmt.Fprintf(mf, "(mkMc %s %s, [])\n", hx.CoqStr(pat.Regexp), hx.CoqList(items))
	sum.Extra["matcher_lines"] = len(all)
	sum.Extra["matcher_lines_matching"] = nmatch
	sum.Extra["shipped_pattern"] = pat.Regexp
	sum.Evaluations += len(all)

	// part D: several files in ONE run, given in an order that is not the sorted one: every mode
	// renders the diagnostics in the order in which the library returns them
	partD(l, sum)

	sum.Nontrivial = len(a.nontriv)
	sum.Rule = fmt.Sprintf("part A: %d echo sites x hostile strings (line feed, CR LF, trailing LF, blank line, tab, ESC sequence, control, CJK, emoji, quote, \" [\", backslash, \": ; \", NEL/LS, plain) written as YAML double-quoted scalars, each linted through the library API and Command.Main in 6 modes (default, -oneline, -oneline -color, {{json .}}, -format with fields; all compared with the library's []*Error); part B: PrettyPrint and GetTemplateFields on every (line, col) in [-1, len+2]^2 for %d sources (ASCII, tabs, CR LF, blank lines, wide, combining, emoji, invalid UTF-8, ESC, NUL); part C: the shipped pattern on the real header lines and random edits of them; part D: multi-file runs with the files in every order (oneline, default, -format through the library, oneline and -format through Command.Main): rendered order = order of the returned diagnostics = argument order; non-trivial = a workflow whose diagnostics echo the hostile string (quoted or raw); distinct = distinct workflow text", len(sites), len(pool))
	sum.Samples = append(sum.Samples, map[string]interface{}{"site": sites[9].Name, "workflow": sites[9].render(hostiles[0].S)}, map[string]interface{}{"sweep_source": sweepPool[8]}, map[string]interface{}{"matcher_line": "f:1:2: found 4: [0 */3 * *] [events]"})
	sum.Write(filepath.Join(*out, "summary.json"))
}
