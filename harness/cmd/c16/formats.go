package main

// Translator (T) for C16: "messages never contain line breaks" rests on how the diagnostics are
// built.  Every %s / %v verb of every diagnostic format of the package (calls of Errorf / errorf /
// Error / error / errorfAtExpr with a literal format) is listed from the source on every run with
// the expression it prints, into coq/Gen/GenFormats.v; coq/Out/FormatArgs.v proves that each is a
// known one: a value built by one of the quoting functions, one of a fixed set of words, a
// position, a number, the text of a library error that quotes its input, or something the person
// who runs actionlint configured.  (A string taken from the workflow is printed with %q.)

import (
	"bytes"
	"fmt"
	"go/ast"
	"go/format"
	"go/parser"
	"go/token"
	"os"
	"path/filepath"
	"regexp"
	"sort"
	"strconv"
	"strings"

	"verifharness/hx"
)

type fmtArg struct{ file, fn, verb, arg, head string }

var verbRe = regexp.MustCompile(`%[-+# 0]*[0-9]*(\.[0-9]+)?[a-zA-Z%]`)

func scanFormats(repo string) ([]fmtArg, error) {
	names, _ := filepath.Glob(filepath.Join(repo, "*.go"))
	sort.Strings(names)
	fset := token.NewFileSet()
	var out []fmtArg
	for _, n := range names {
		if strings.HasSuffix(n, "_test.go") {
			continue
		}
		b, err := os.ReadFile(n)
		if err != nil {
			return nil, err
		}
		if bytes.HasPrefix(b, []byte("//go:build verif")) {
			continue
		}
		f, err := parser.ParseFile(fset, n, b, parser.SkipObjectResolution)
		if err != nil {
			return nil, err
		}
		if f.Name.Name != "actionlint" {
			continue
		}
		for _, d := range f.Decls {
			fd, ok := d.(*ast.FuncDecl)
			if !ok || fd.Body == nil {
				continue
			}
			ast.Inspect(fd.Body, func(x ast.Node) bool {
				c, ok := x.(*ast.CallExpr)
				if !ok {
					return true
				}
				name := ""
				switch fn := c.Fun.(type) {
				case *ast.SelectorExpr:
					name = fn.Sel.Name
				case *ast.Ident:
					name = fn.Name
				}
				switch name {
				case "Errorf", "errorf", "errorfAtExpr", "errorfAt", "Error", "error", "errorAt":
				default:
					return true
				}
				lit := -1
				for i, a := range c.Args {
					if bl, ok := a.(*ast.BasicLit); ok && bl.Kind == token.STRING {
						lit = i
						break
					}
				}
				if lit < 0 {
					// a message that is not a literal (built elsewhere): listed as such when it is a concatenation
					for _, a := range c.Args {
						if be, ok := a.(*ast.BinaryExpr); ok && be.Op == token.ADD {
							var tb bytes.Buffer
							format.Node(&tb, fset, be)
							t := strings.Join(strings.Fields(tb.String()), " ")
							if len(t) > 60 {
								t = t[:60]
							}
							out = append(out, fmtArg{filepath.Base(n), fd.Name.Name, "+", t, "<concatenation>"})
						}
					}
					return true
				}
				fs, _ := strconv.Unquote(c.Args[lit].(*ast.BasicLit).Value)
				head := fs
				if len(head) > 40 {
					head = head[:40]
				}
				k := 0
				for _, v := range verbRe.FindAllString(fs, -1) {
					if v == "%%" {
						continue
					}
					ai := lit + 1 + k
					k++
					last := v[len(v)-1]
					if last != 's' && last != 'v' {
						continue
					}
					arg := "?"
					if ai < len(c.Args) {
						var tb bytes.Buffer
						format.Node(&tb, fset, c.Args[ai])
						arg = strings.Join(strings.Fields(tb.String()), " ")
						if len(arg) > 60 {
							arg = arg[:60]
						}
					}
					out = append(out, fmtArg{filepath.Base(n), fd.Name.Name, v, arg, head})
				}
				return true
			})
		}
	}
	return out, nil
}

func doExtractFormats(repo, gen string) int {
	fs, err := scanFormats(repo)
	if err != nil {
		fmt.Fprintln(os.Stderr, "extract-formats:", err)
		return 2
	}
	var sb strings.Builder
	sb.WriteString("(* Gen/GenFormats.v — GENERATED on every run of ./check C16 from the .go files of the package by\n   harness/cmd/c16 (-extract-formats); do not edit.  Every %s / %v verb of a diagnostic format\n   (and every message built by concatenation): (file, function, verb, printed expression, head of the format). *)\n")
	sb.WriteString("From AL Require Import Base.Str.\n\n")
	sb.WriteString("Definition format_args : list (string * string * string * string * string) := [\n")
	for i, f := range fs {
		sep := ";"
		if i == len(fs)-1 {
			sep = ""
		}
		fmt.Fprintf(&sb, "  (%s, %s, %s, %s, %s)%s\n", hx.CoqStr(f.file), hx.CoqStr(f.fn), hx.CoqStr(f.verb), hx.CoqStr(f.arg), hx.CoqStr(f.head), sep)
	}
	sb.WriteString("].\n")
	if err := os.WriteFile(gen, []byte(sb.String()), 0o644); err != nil {
		fmt.Fprintln(os.Stderr, "extract-formats:", err)
		return 2
	}
	return 0
}
