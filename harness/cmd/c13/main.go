// Command c13: correspondence and oracle harness for property C13 (unknown,
// duplicate and missing keys are reported in every section).
//
// For every corpus workflow (testdata/ok, testdata/examples, testdata/err of
// the repository under test) and a set of synthetic "every-key" workflows it
// visits every mapping node that the workflow syntax gives a meaning to
// (reference grammar in spec.go, written from GitHub's workflow-syntax
// reference, independent of parse.go) and applies, as edits of the source text:
//   - insertion of a foreign key at each index (sections with a fixed key set),
//   - duplication of each existing key in three spellings,
//   - removal of each mandatory key.
//
// The mutant is parsed with actionlint.Parse; the property oracle compares its
// syntax-check diagnostics with those of the original (demanded new diagnostic
// present at the demanded node; diagnostics of all other nodes still there).
// For the correspondence check the yaml.v3 node tree of the (mutated) source is
// dumped as a Coq term together with the projected diagnostics.
package main

import (
	"encoding/json"
	"flag"
	"fmt"
	"os"
	"path/filepath"
	"regexp"
	"sort"
	"strconv"
	"strings"

	"github.com/rhysd/actionlint"
	"gopkg.in/yaml.v3"

	"verifharness/hx"
)

// ---------------------------------------------------------------- diagnostics

// projected diagnostic: class code (same numbering as coq/Wf/Sections.v
// diag_tuple), position, and for duplicates the cited earlier position.
type pdiag struct {
	Code, Line, Col int
	Extra           []int
}

func (d pdiag) tuple() string {
	xs := []string{hx.CoqN(d.Code), hx.CoqN(d.Line), hx.CoqN(d.Col)}
	for _, e := range d.Extra {
		xs = append(xs, hx.CoqN(e))
	}
	return "[" + strings.Join(xs, ";") + "]"
}

func (d pdiag) key() string { return fmt.Sprintf("%d@%d:%d", d.Code, d.Line, d.Col) }

var (
	reDup     = regexp.MustCompile(`^key ".*" is duplicated in .*\. previously defined at line:(\d+),col:(\d+)`)
	reNotMap  = regexp.MustCompile(` is (document|sequence|mapping|scalar|alias) node but mapping node is expected$`)
	classPref = []struct {
		prefix string
		code   int
	}{
		{"unexpected key ", 1},
		{"expected scalar node for string value but found", 5},
		{"string should not be empty", 6},
		{"element of \"schedule\" section must be mapping and must contain one key \"cron\"", 9},
		{"expecting a single ${{...}} expression or ", 20},
		{"expected bool value but found", 21},
		{"expected scalar node for integer value", 22},
		{"expected scalar node for float value", 23},
		{"input type of workflow_dispatch event must be one of", 24},
		{"invalid value ", 25},
		{"schedule event must be configured with mapping", 26},
		{"\"on\" section value is expected to be mapping or sequence", 28},
		{"unexpected ", 29}, // "unexpected %s node on parsing value in matrix row" (after "unexpected key ")
		{"workflow is empty", 30},
		{"this step is for running shell command", 31},
		{"this step is for running action", 32},
		{"\"working-directory\" is not available with \"uses\"", 33},
		{"expected mapping node for secrets or \"inherit\" string node", 34},
		{"when a reusable workflow is called with \"uses\"", 35},
		{"\"on\" section is missing in workflow", 40},
		{"\"jobs\" section is missing in workflow", 41},
		{"\"runs-on\" section is missing in job", 42},
		{"\"steps\" section is missing in job", 43},
		{"step must run script with \"run\" section or run action with \"uses\" section", 44},
		{"\"uses\" is required to run action in step", 45},
		{"\"run\" is required to run script in step", 46},
		{"\"type\" is missing at ", 47},
		{"\"value\" is missing at ", 48},
		{"group name is missing in \"concurrency\" section", 49},
		{"name is missing in \"environment\" section", 50},
		{"both \"username\" and \"password\" must be specified in \"credentials\" section", 51},
		{"\"defaults\" section should have \"run\" section", 52},
		// not modelled (strconv dependent): code 0 = dropped on both sides
		{"invalid integer value", 0},
		{"invalid float value", 0},
		{"value at \"max-parallel\" must be greater than zero", 0},
		{"value at \"timeout-minutes\" must be greater than zero", 0},
	}
)

// classify maps a syntax-check message to its class code; -1 = unknown message.
func classify(msg string) (int, []int) {
	if m := reDup.FindStringSubmatch(msg); m != nil {
		l, _ := strconv.Atoi(m[1])
		c, _ := strconv.Atoi(m[2])
		return 2, []int{l, c}
	}
	if strings.HasPrefix(msg, "expected ") && strings.Contains(msg, " key for ") && strings.Contains(msg, " section but got ") {
		return 1, nil
	}
	if reNotMap.MatchString(msg) {
		return 3, nil
	}
	if strings.HasSuffix(msg, " should not be empty. please remove this section if it's unnecessary") {
		return 4, nil
	}
	if strings.HasSuffix(msg, " section should not be empty") {
		return 8, nil
	}
	if strings.Contains(msg, " section must be sequence node but got ") {
		return 7, nil
	}
	if strings.HasSuffix(msg, "event should not be listed in sequence. Use mapping for \"on\" section and configure the event as values of the mapping") {
		return 27, nil
	}
	if strings.Contains(msg, " is only available for a reusable workflow call with \"uses\" but \"uses\" is not found in job ") {
		return 36, nil
	}
	for _, p := range classPref {
		if strings.HasPrefix(msg, p.prefix) {
			return p.code, nil
		}
	}
	return -1, nil
}

type parseResult struct {
	diags   []pdiag
	yamlErr bool
	panic   string
	unknown []string
}

func runParse(src []byte) (res parseResult) {
	defer func() {
		if r := recover(); r != nil {
			res.panic = fmt.Sprint(r)
		}
	}()
	_, errs := actionlint.Parse(src)
	for _, e := range errs {
		if strings.HasPrefix(e.Message, "could not parse as YAML") {
			res.yamlErr = true
			continue
		}
		code, extra := classify(e.Message)
		if code == 0 {
			continue
		}
		if code < 0 {
			res.unknown = append(res.unknown, e.Message)
			continue
		}
		res.diags = append(res.diags, pdiag{code, e.Line, e.Column, extra})
	}
	return
}

// ---------------------------------------------------------------- node trees

func kindName(k yaml.Kind) string {
	switch k {
	case yaml.DocumentNode:
		return "KDoc"
	case yaml.SequenceNode:
		return "KSeq"
	case yaml.MappingNode:
		return "KMap"
	case yaml.ScalarNode:
		return "KScalar"
	case yaml.AliasNode:
		return "KAlias"
	}
	return ""
}

// coqNode renders the tree as a term of type ynode; ok=false when the tree
// violates an assumption of the model (unknown kind, odd mapping, string that
// cannot be written as a Coq literal).
func coqNode(n *yaml.Node, sb *strings.Builder) bool {
	k := kindName(n.Kind)
	if k == "" || !hx.CoqStrOK(n.Tag) || !hx.CoqStrOK(n.Value) {
		return false
	}
	if n.Kind == yaml.MappingNode && len(n.Content)%2 != 0 {
		return false
	}
	fmt.Fprintf(sb, "Y %s %s %s %d %d [", k, hx.CoqStr(n.Tag), hx.CoqStr(n.Value), n.Line, n.Column)
	for i, c := range n.Content {
		if i > 0 {
			sb.WriteString(";")
		}
		sb.WriteString("(")
		if !coqNode(c, sb) {
			return false
		}
		sb.WriteString(")")
	}
	sb.WriteString("]")
	return true
}

func countNodes(n *yaml.Node) int {
	c := 1
	for _, ch := range n.Content {
		c += countNodes(ch)
	}
	return c
}

func nodeAt(n *yaml.Node, path []int) *yaml.Node {
	for _, i := range path {
		if i >= len(n.Content) {
			return nil
		}
		n = n.Content[i]
	}
	return n
}

// all nodes in document order with their paths
type located struct {
	n    *yaml.Node
	path []int
}

func walk(n *yaml.Node, path []int, out *[]located) {
	p := append([]int(nil), path...)
	*out = append(*out, located{n, p})
	for i, c := range n.Content {
		walk(c, append(p, i), out)
	}
}

func hasPrefix(path, pre []int) bool {
	if len(path) < len(pre) {
		return false
	}
	for i := range pre {
		if path[i] != pre[i] {
			return false
		}
	}
	return true
}

// ---------------------------------------------------------------- mutations

type mutation struct {
	Kind    string `json:"kind"` // foreign | dup | remove
	Section string `json:"section"`
	Path    []int  `json:"path"`  // path of the mapping node
	Index   int    `json:"index"` // pair index of insertion / removal
	Key     string `json:"key"`   // inserted or removed key
	Of      int    `json:"of"`    // dup: pair index of the original
	Spell   string `json:"spelling,omitempty"`
}

type site struct {
	m    *yaml.Node
	path []int
	sec  *sec
	ctx  map[string]bool // keys present (exact spelling) — for job/step rules
}

func asciiUpper(s string) string {
	b := []byte(s)
	for i, c := range b {
		if c >= 'a' && c <= 'z' {
			b[i] = c - 32
		}
	}
	return string(b)
}

func asciiMixed(s string) string {
	b := []byte(s)
	flip := true
	for i, c := range b {
		if c >= 'a' && c <= 'z' {
			if flip {
				b[i] = c - 32
			}
			flip = !flip
		} else if c >= 'A' && c <= 'Z' {
			if flip {
				b[i] = c + 32
			}
			flip = !flip
		}
	}
	return string(b)
}

func asciiLower(s string) string {
	b := []byte(s)
	for i, c := range b {
		if c >= 'A' && c <= 'Z' {
			b[i] = c + 32
		}
	}
	return string(b)
}

func isASCII(s string) bool {
	for i := 0; i < len(s); i++ {
		if s[i] >= 0x80 {
			return false
		}
	}
	return true
}

func yamlKey(s string) string {
	if s == "<<" {
		return s // the YAML merge key, written plain (quoted it would be an ordinary string)
	}
	b, _ := json.Marshal(s) // a JSON string is a YAML double-quoted scalar
	return string(b)
}

type textDoc struct {
	lines []string
}

func newTextDoc(src []byte) *textDoc {
	s := string(src)
	if !strings.HasSuffix(s, "\n") {
		s += "\n"
	}
	ls := strings.Split(s, "\n")
	return &textDoc{ls[:len(ls)-1]}
}

func (t *textDoc) bytes(lines []string) []byte { return []byte(strings.Join(lines, "\n") + "\n") }

func blank(s string) bool { return strings.TrimLeft(s, " ") == "" }

// line (1-based) of the first node after the subtree rooted at path, in
// document order; len(lines)+1 when there is none.
func nextLineAfter(all []located, path []int, nlines int) int {
	seen := false
	for _, l := range all {
		if hasPrefix(l.path, path) {
			seen = true
			continue
		}
		if seen {
			return l.n.Line
		}
	}
	return nlines + 1
}

// insertPair returns the source with "key: 0" inserted as pair j of the block
// mapping m (nil when the layout is not supported).
func (t *textDoc) insertPair(all []located, s site, j int, key string) []string {
	m := s.m
	if m.Style&yaml.FlowStyle != 0 || len(m.Content) == 0 {
		return nil
	}
	n := len(m.Content) / 2
	col := m.Content[0].Column
	for i := 0; i < n; i++ {
		k := m.Content[2*i]
		if k.Column != col || k.Line < 1 || k.Line > len(t.lines) {
			return nil
		}
		pre := t.lines[k.Line-1]
		if len(pre) < col-1 {
			return nil
		}
		pre = pre[:col-1]
		if i > 0 && !blank(pre) {
			return nil
		}
		if i > 0 && k.Line == m.Content[2*i-2].Line {
			return nil
		}
	}
	newline := strings.Repeat(" ", col-1) + yamlKey(key) + ": 0"
	out := []string{}
	if j < n {
		at := m.Content[2*j].Line
		pre := t.lines[at-1][:col-1]
		out = append(out, t.lines[:at-1]...)
		if !blank(pre) { // "- key: v": the new pair takes the dash
			if j != 0 || !allDashes(pre) {
				return nil
			}
			out = append(out, pre+yamlKey(key)+": 0")
			out = append(out, strings.Repeat(" ", col-1)+t.lines[at-1][col-1:])
		} else {
			out = append(out, newline, t.lines[at-1])
		}
		out = append(out, t.lines[at:]...)
		return out
	}
	at := nextLineAfter(all, s.path, len(t.lines)) // insert before this line
	if at <= m.Content[2*n-2].Line {
		return nil
	}
	// do not put the line after trailing comments/blank lines that belong to a
	// shallower level: walk back over blank and comment-only lines
	for at-2 >= 0 && at-1 > m.Content[2*n-2].Line {
		l := strings.TrimLeft(t.lines[at-2], " ")
		if l == "" || strings.HasPrefix(l, "#") {
			at--
		} else {
			break
		}
	}
	out = append(out, t.lines[:at-1]...)
	out = append(out, newline)
	out = append(out, t.lines[at-1:]...)
	return out
}

func allDashes(pre string) bool {
	for _, f := range strings.Fields(pre) {
		if f != "-" {
			return false
		}
	}
	return strings.TrimSpace(pre) != ""
}

// removePair deletes pair i of the block mapping (nil when unsupported).
func (t *textDoc) removePair(all []located, s site, i int) []string {
	m := s.m
	n := len(m.Content) / 2
	if m.Style&yaml.FlowStyle != 0 || n < 2 {
		return nil
	}
	col := m.Content[0].Column
	for q := 0; q < n; q++ {
		k := m.Content[2*q]
		if k.Column != col || k.Line < 1 || k.Line > len(t.lines) || len(t.lines[k.Line-1]) < col-1 {
			return nil
		}
		if q > 0 && (!blank(t.lines[k.Line-1][:col-1]) || k.Line == m.Content[2*q-2].Line) {
			return nil
		}
	}
	from := m.Content[2*i].Line
	var to int // first line kept
	if i+1 < n {
		to = m.Content[2*i+2].Line
	} else {
		to = nextLineAfter(all, s.path, len(t.lines))
	}
	if to <= from {
		return nil
	}
	out := append([]string(nil), t.lines[:from-1]...)
	rest := append([]string(nil), t.lines[to-1:]...)
	pre := t.lines[from-1][:col-1]
	if !blank(pre) { // the first key carries a dash: hand it to the next key
		if i != 0 || !allDashes(pre) || len(rest) == 0 {
			return nil
		}
		rest[0] = pre + rest[0][col-1:]
	}
	return append(out, rest...)
}

// same shape: the mutant's mapping at path has the expected keys
func keysOf(m *yaml.Node) []string {
	ks := []string{}
	for i := 0; i+1 < len(m.Content); i += 2 {
		ks = append(ks, m.Content[i].Value)
	}
	return ks
}

func eqStrings(a, b []string) bool {
	if len(a) != len(b) {
		return false
	}
	for i := range a {
		if a[i] != b[i] {
			return false
		}
	}
	return true
}

// map a path of the original tree to the mutant tree (nil = node removed)
func mapPath(p []int, mu mutation) []int {
	if !hasPrefix(p, mu.Path) || len(p) == len(mu.Path) {
		return p
	}
	q := append([]int(nil), p...)
	c := p[len(mu.Path)]
	if mu.Kind == "remove" {
		if c == 2*mu.Index || c == 2*mu.Index+1 {
			return nil
		}
		if c > 2*mu.Index {
			q[len(mu.Path)] = c - 2
		}
		return q
	}
	if c >= 2*mu.Index {
		q[len(mu.Path)] = c + 2
	}
	return q
}

// ---------------------------------------------------------------- one base workflow

type caseOut struct {
	term   string
	source map[string]interface{}
	nodes  int
}

type failure struct {
	What     string      `json:"what"`
	Key      string      `json:"key"`
	File     string      `json:"file"`
	Mutation *mutation   `json:"mutation,omitempty"`
	Original string      `json:"original"`
	Mutant   string      `json:"mutant"`
	Detail   interface{} `json:"detail,omitempty"`
}

type runner struct {
	sum        *hx.Summary
	cands      []cand
	fails      []failure
	skipLayout int
	skipShape  int
	skipYAML   int
	panics     []string
	unknownMsg map[string]bool
	nontrivial map[string]bool
	perSection map[string]int
	pool       []string // case labels of parse.go
	poolAll    bool
	// second-order mutations: the first mutant of a (base, section, kind) becomes a base of its
	// own on which the same kind of edit is applied at every OTHER site of that section, so that
	// two sibling mappings carry the same defect (two diagnostics with one text) in one document
	filter  *mutation
	second  map[string]bool
	second2 bool // also for the corpus workflows (thorough)
}

// baseOracle: on an unmutated workflow the keys reported as unexpected are
// exactly the keys outside the documented key set of their section (first
// occurrences), each at the key.
func (r *runner) baseOracle(name string, src []byte, sites []site, orig parseResult) {
	want := map[[2]int]string{}
	for _, s := range sites {
		if !s.sec.closed || s.sec.special == "schedule-item" {
			continue
		}
		seen := map[string]bool{}
		for i := 0; i+1 < len(s.m.Content); i += 2 {
			k := s.m.Content[i]
			id := k.Value
			if k.Kind != yaml.ScalarNode {
				id = ""
			}
			if seen[id] {
				continue
			}
			seen[id] = true
			if _, ok := s.sec.keys[id]; !ok {
				want[[2]int{k.Line, k.Column}] = s.sec.name + "." + id
			}
		}
	}
	got := map[[2]int]bool{}
	for _, d := range orig.diags {
		if d.Code == 1 {
			got[[2]int{d.Line, d.Col}] = true
		}
	}
	for p, w := range want {
		if !got[p] {
			r.fails = append(r.fails, failure{"key outside the documented key set is not reported at the key", "base-unknown-not-reported|" + w, name, nil, string(src), string(src), map[string]interface{}{"at": p, "key": w, "diags": orig.diags}})
		}
	}
	for p := range got {
		if _, ok := want[p]; !ok {
			key := ""
			for _, s := range sites {
				for i := 0; i+1 < len(s.m.Content); i += 2 {
					if k := s.m.Content[i]; k.Line == p[0] && k.Column == p[1] {
						key = s.sec.name + "." + k.Value
					}
				}
			}
			r.fails = append(r.fails, failure{"a key of the documented key set is reported as unexpected", "base-documented-key-reported|" + key, name, nil, string(src), string(src), map[string]interface{}{"at": p, "key": key, "diags": orig.diags}})
		}
	}
}

func (r *runner) addCase(name string, src []byte, doc *yaml.Node, res parseResult, mu *mutation) {
	group := "base"
	if mu != nil {
		group = mu.Section + ":" + mu.Kind
	}
	r.cands = append(r.cands, cand{name, src, res, mu, group, countNodes(doc)})
}

type cand struct {
	name  string
	src   []byte
	res   parseResult
	mu    *mutation
	group string
	nodes int
}

func (r *runner) render(c cand) (caseOut, bool) {
	var doc yaml.Node
	if err := yaml.Unmarshal(c.src, &doc); err != nil {
		return caseOut{}, false
	}
	var sb strings.Builder
	if !coqNode(&doc, &sb) {
		r.sum.Dist["not-dumpable"]++
		return caseOut{}, false
	}
	ts := []string{}
	for _, d := range c.res.diags {
		ts = append(ts, d.tuple())
	}
	term := "(" + sb.String() + ", [" + strings.Join(ts, ";") + "])"
	return caseOut{term, map[string]interface{}{"file": c.name, "mutation": c.mu, "source": string(c.src), "diags": c.res.diags}, c.nodes}, true
}

func diagMultiset(ds []pdiag) map[string]int {
	m := map[string]int{}
	for _, d := range ds {
		m[d.key()]++
	}
	return m
}

func countCodes(ds []pdiag, codes ...int) int {
	c := 0
	for _, d := range ds {
		for _, k := range codes {
			if d.Code == k {
				c++
			}
		}
	}
	return c
}

// oracle: evaluates the property on (original, mutant); returns failures
func (r *runner) oracle(name string, mu mutation, s site, origDoc, mutDoc *yaml.Node, orig, mut parseResult, origSrc, mutSrc []byte, origAll []located) {
	fail := func(what string, detail interface{}) {
		key := fmt.Sprintf("%s|%s|%s", what, mu.Section, mu.Kind)
		if mu.Kind == "remove" || mu.Kind == "dup" {
			key += "|" + asciiLower(mu.Key)
		}
		m := mu
		r.fails = append(r.fails, failure{what, key, name, &m, string(origSrc), string(mutSrc), detail})
	}
	mm := nodeAt(mutDoc, mu.Path)
	has := func(code, line, col int) bool {
		for _, d := range mut.diags {
			if d.Code == code && d.Line == line && d.Col == col {
				return true
			}
		}
		return false
	}
	switch mu.Kind {
	case "foreign", "dup":
		k := mm.Content[2*mu.Index]
		want := 0
		switch {
		case mu.Kind == "foreign" && s.sec.special == "schedule-item":
			want = 9
		case mu.Kind == "foreign":
			want = 1
		case mu.Spell == "same" || s.sec.ci:
			want = 2
		case s.sec.closed && s.sec.special == "schedule-item":
			want = 9
		case s.sec.closed:
			want = 1 // another spelling of a case-sensitive key is a foreign key
		}
		if want == 9 {
			if !has(9, mm.Line, mm.Column) {
				fail("key outside the set of a schedule item is not reported at the item", mut.diags)
			}
		} else if want != 0 {
			if !has(want, k.Line, k.Column) {
				what := "foreign key is not reported at the key"
				if want == 2 {
					what = "repeated key is not reported at the repetition"
				}
				fail(what, map[string]interface{}{"want": []int{want, k.Line, k.Column}, "got": mut.diags})
			}
		}
		// siblings unaffected: every diagnostic of the original is still
		// reported, at the node it was reported at
		posNodes := map[[2]int][][]int{}
		for _, l := range origAll {
			p := [2]int{l.n.Line, l.n.Column}
			posNodes[p] = append(posNodes[p], l.path)
		}
		avail := diagMultiset(mut.diags)
		for _, d := range orig.diags {
			paths := posNodes[[2]int{d.Line, d.Col}]
			found := false
			if len(paths) == 0 {
				paths = [][]int{nil}
				if avail[d.key()] > 0 {
					avail[d.key()]--
					found = true
				}
			}
			for _, p := range paths {
				if found {
					break
				}
				q := mapPath(p, mu)
				if q == nil {
					continue
				}
				nn := nodeAt(mutDoc, q)
				if nn == nil {
					continue
				}
				key := pdiag{Code: d.Code, Line: nn.Line, Col: nn.Column}.key()
				if avail[key] > 0 {
					avail[key]--
					found = true
				}
			}
			if !found {
				fail("a foreign or duplicate key suppresses a diagnostic of a sibling", map[string]interface{}{"lost": d, "original": orig.diags, "mutant": mut.diags})
				break
			}
		}
	case "remove":
		var codes []int
		switch mu.Section + "." + mu.Key {
		case "workflow.on":
			codes = []int{40}
		case "workflow.jobs":
			codes = []int{41}
		case "job.runs-on":
			codes = []int{42}
		case "job.steps":
			codes = []int{43}
		case "step.run", "step.uses":
			codes = []int{44, 45, 46}
		case "workflow_call input.type":
			codes = []int{47}
		case "workflow_call output.value":
			codes = []int{48}
		case "concurrency.group":
			codes = []int{49}
		case "environment.name":
			codes = []int{50}
		case "credentials.username", "credentials.password":
			codes = []int{51}
		case "defaults.run":
			codes = []int{52}
		}
		// where the diagnostic is expected (DESIGN.md Appendix C): the document
		// node (on, jobs), the step / defaults node itself, otherwise the key
		// that introduces the mapping (job id, input / output name, section key)
		var at *yaml.Node
		switch mu.Section + "." + mu.Key {
		case "workflow.on", "workflow.jobs":
			at = mutDoc
		case "step.run", "step.uses", "defaults.run":
			at = mm
		default:
			pp := append([]int(nil), mu.Path...)
			pp[len(pp)-1]--
			at = nodeAt(mutDoc, pp)
		}
		line, col := at.Line, at.Column
		if at == mutDoc {
			if line == 0 {
				line = 1
			}
			if col == 0 {
				col = 1
			}
		}
		found := false
		for _, c := range codes {
			if has(c, line, col) {
				found = true
			}
		}
		if !found {
			fail("missing mandatory key is not reported", map[string]interface{}{"want_class": codes, "want_pos": []int{line, col}, "original": orig.diags, "mutant": mut.diags})
		}
	}
}

func (r *runner) base(name string, src []byte, wantCases func(mu *mutation) bool) {
	var doc yaml.Node
	if err := yaml.Unmarshal(src, &doc); err != nil {
		r.sum.Dist["base-not-yaml"]++
		return
	}
	orig := runParse(src)
	if orig.panic != "" {
		r.panics = append(r.panics, name+": "+orig.panic)
		return
	}
	for _, u := range orig.unknown {
		r.unknownMsg[u] = true
	}
	r.sum.Dist["base"]++
	r.sum.Evaluations++
	if wantCases(nil) {
		r.addCase(name, src, &doc, orig, nil)
	}
	if len(orig.diags) > 0 {
		r.sum.Dist["base-with-diagnostics"]++
	}
	var all []located
	walk(&doc, nil, &all)
	td := newTextDoc(src)
	sites := specSites(&doc)
	r.baseOracle(name, src, sites, orig)
	for _, s := range sites {
		keys := keysOf(s.m)
		n := len(keys)
		var mus []mutation
		if r.filter != nil && (s.sec.name != r.filter.Section || r.filter.Kind == "foreign" && countOf(keys, r.filter.Key) > 0) {
			continue
		}
		if s.sec.closed {
			for j := 0; j <= n; j++ {
				mus = append(mus, mutation{Kind: "foreign", Section: s.sec.name, Path: s.path, Index: j, Key: "zz-foreign-key"})
			}
			// keys that parse.go accepts somewhere (case labels extracted from its
			// source) but that the syntax does not allow in this section
			if r.poolAll || strings.HasPrefix(name, "synthetic/0") {
				for _, lab := range r.pool {
					if _, ok := s.sec.keys[lab]; ok || countOf(keys, lab) > 0 || s.sec.special == "schedule-item" {
						continue
					}
					mus = append(mus, mutation{Kind: "foreign", Section: s.sec.name, Path: s.path, Index: n, Key: lab})
				}
			}
		}
		for i, k := range keys {
			if !isASCII(k) || k == "" {
				continue
			}
			seenSp := map[string]bool{}
			for _, sp := range []string{"same", "upper", "mixed"} {
				kk := k
				if sp == "upper" {
					kk = asciiUpper(k)
				} else if sp == "mixed" {
					kk = asciiMixed(k)
				}
				if seenSp[kk] {
					continue
				}
				seenSp[kk] = true
				if sp != "same" && !s.sec.ci && !s.sec.closed {
					continue // e.g. "on": another spelling is another event
				}
				// the spelling must not collide with another key of the mapping
				coll := false
				for q, other := range keys {
					if q != i && (other == kk || s.sec.ci && asciiLower(other) == asciiLower(kk)) {
						coll = true
					}
				}
				if coll {
					continue
				}
				js := []int{n}
				if i+1 != n {
					js = append(js, i+1)
				}
				for _, j := range js {
					mus = append(mus, mutation{Kind: "dup", Section: s.sec.name, Path: s.path, Index: j, Key: kk, Of: i, Spell: sp})
				}
			}
		}
		for i, k := range keys {
			if s.sec.mandatory(k, s.ctx) && countOf(keys, k) == 1 {
				mus = append(mus, mutation{Kind: "remove", Section: s.sec.name, Path: s.path, Index: i, Key: k})
			}
		}
		for _, mu := range mus {
			if r.filter != nil && (mu.Kind != r.filter.Kind || mu.Kind == "foreign" && mu.Key != r.filter.Key) {
				continue
			}
			var lines []string
			if mu.Kind == "remove" {
				lines = td.removePair(all, s, mu.Index)
			} else {
				lines = td.insertPair(all, s, mu.Index, mu.Key)
			}
			if lines == nil {
				r.skipLayout++
				continue
			}
			msrc := td.bytes(lines)
			var mdoc yaml.Node
			if err := yaml.Unmarshal(msrc, &mdoc); err != nil {
				r.skipYAML++
				continue
			}
			mm := nodeAt(&mdoc, mu.Path)
			var wantKeys []string
			if mu.Kind == "remove" {
				wantKeys = append(append([]string{}, keys[:mu.Index]...), keys[mu.Index+1:]...)
			} else {
				wantKeys = append(append(append([]string{}, keys[:mu.Index]...), mu.Key), keys[mu.Index:]...)
			}
			wantNodes := countNodes(&doc) + 2
			if mu.Kind == "remove" {
				wantNodes = countNodes(&doc) - 1 - countNodes(s.m.Content[2*mu.Index+1])
			}
			if mm == nil || mm.Kind != yaml.MappingNode || !eqStrings(keysOf(mm), wantKeys) || countNodes(&mdoc) != wantNodes {
				r.skipShape++
				continue
			}
			res := runParse(msrc)
			if res.panic != "" {
				r.panics = append(r.panics, fmt.Sprintf("%s %+v: %s", name, mu, res.panic))
				continue
			}
			if res.yamlErr {
				r.skipYAML++
				continue
			}
			for _, u := range res.unknown {
				r.unknownMsg[u] = true
			}
			r.sum.Evaluations++
			r.sum.Dist["mutation:"+mu.Kind]++
			r.perSection[s.sec.name+":"+mu.Kind]++
			sig := fmt.Sprintf("%s:%s:%v", s.sec.name, mu.Kind, len(res.diags) > len(orig.diags))
			r.nontrivial[sig+":"+mu.Key] = true
			m := mu
			r.oracle(name, mu, s, &doc, &mdoc, orig, res, src, msrc, all)
			if wantCases(&m) {
				r.addCase(name, msrc, &mdoc, res, &m)
			}
			if r.filter == nil && mu.Key != "" && (r.second2 || strings.HasPrefix(name, "synthetic/")) {
				k2 := name + "\x00" + s.sec.name + "\x00" + mu.Kind
				if mu.Kind == "foreign" && mu.Key != "zz-foreign-key" {
					k2 = ""
				}
				if k2 != "" && !r.second[k2] {
					r.second[k2] = true
					r.filter = &m
					r.sum.Dist["second-order-base:"+mu.Kind]++
					r.base(fmt.Sprintf("%s+%s@%s", name, mu.Kind, s.sec.name), msrc, func(*mutation) bool { return false })
					r.filter = nil
				}
			}
		}
	}
}

func countOf(xs []string, x string) int {
	c := 0
	for _, y := range xs {
		if y == x {
			c++
		}
	}
	return c
}

// ---------------------------------------------------------------- main

func main() {
	seed := flag.Uint64("seed", 1, "seed")
	n := flag.Int("n", 800, "number of correspondence cases (node trees) to emit for evaluation inside Coq")
	maxNodes := flag.Int("maxnodes", 400, "largest node tree emitted as a Coq case")
	out := flag.String("out", ".", "output directory")
	repo := flag.String("repo", "/repo", "repository under test (corpus: testdata/ok, testdata/examples, testdata/err)")
	replay := flag.String("replay", "", "replay file")
	tier := flag.String("tier", "quick", "quick|thorough")
	extract := flag.String("extract", "", "extract the key tables of this parse.go (translator mode)")
	gen := flag.String("gen", "GenParseKeys.v", "output of -extract")
	flag.Parse()

	if *extract != "" {
		os.Exit(doExtract(*extract, *gen))
	}

	if *replay != "" {
		os.Exit(doReplay(*replay))
	}

	r := &runner{sum: hx.NewSummary("C13"), unknownMsg: map[string]bool{}, nontrivial: map[string]bool{}, perSection: map[string]int{}, second: map[string]bool{}}
	rng := hx.NewRng(*seed)
	r.poolAll = *tier == "thorough"
	r.second2 = *tier == "thorough"
	if gs, _, err := extractFile(filepath.Join(*repo, "parse.go")); err == nil {
		seenLab := map[string]bool{}
		for _, g := range gs {
			for _, l := range g.labels {
				if !seenLab[l] && !strings.HasPrefix(l, "<") {
					seenLab[l] = true
					r.pool = append(r.pool, l)
				}
			}
		}
		sort.Strings(r.pool)
	}
	// keys with a meaning of their own in YAML (merge key, null, booleans, numbers): foreign all the same
	r.pool = append(r.pool, "<<", "~", "null", "true", "1", "=",
		// a key written as ONE placeholder: not evaluated in these sections, a foreign key like any other
		"${{ matrix.key }}", "${{ github.sha }}")

	type input struct {
		name string
		src  []byte
	}
	var inputs []input
	for i, s := range synthetic {
		inputs = append(inputs, input{fmt.Sprintf("synthetic/%02d", i), []byte(s)})
	}
	for _, dir := range []string{"testdata/ok", "testdata/examples", "testdata/err"} {
		fs, _ := filepath.Glob(filepath.Join(*repo, dir, "*.yaml"))
		sort.Strings(fs)
		for _, f := range fs {
			b, err := os.ReadFile(f)
			if err != nil {
				continue
			}
			inputs = append(inputs, input{dir + "/" + filepath.Base(f), b})
		}
	}

	for _, in := range inputs {
		r.base(in.name, in.src, func(mu *mutation) bool { return true })
	}

	// Coq cases: every base tree, then mutants taken round-robin over the
	// groups (section, mutation kind) in a seeded order, synthetic workflows
	// first, until n cases are selected (thorough: n is large, all are taken).
	groups := map[string][]cand{}
	var kept []caseOut
	emit := func(c cand) {
		if c.nodes > *maxNodes {
			r.sum.Dist["case-too-large"]++
			return
		}
		if co, ok := r.render(c); ok {
			kept = append(kept, co)
		}
	}
	for _, c := range r.cands {
		if c.mu == nil {
			emit(c)
		} else {
			groups[c.group] = append(groups[c.group], c)
		}
	}
	gnames := hx.SortedKeys(groups)
	for _, g := range gnames {
		cs := groups[g]
		perm := rng.Perm(len(cs))
		var syn, rest []cand
		for _, i := range perm {
			if strings.HasPrefix(cs[i].name, "synthetic/") {
				syn = append(syn, cs[i])
			} else {
				rest = append(rest, cs[i])
			}
		}
		groups[g] = append(syn, rest...)
	}
	for round := 0; len(kept) < *n; round++ {
		any := false
		for _, g := range gnames {
			if round < len(groups[g]) && len(kept) < *n {
				emit(groups[g][round])
				any = true
			}
		}
		if !any {
			break
		}
	}
	_ = tier

	cf, err := os.Create(filepath.Join(*out, "cases.txt"))
	hx.Must(err)
	sf, err := os.Create(filepath.Join(*out, "sources.jsonl"))
	hx.Must(err)
	for _, c := range kept {
		fmt.Fprintln(cf, strings.ReplaceAll(strings.ReplaceAll(c.term, "\\", "\\\\"), "\n", "\\n"))
		b, _ := json.Marshal(c.source)
		fmt.Fprintln(sf, string(b))
	}
	cf.Close()
	sf.Close()

	r.sum.Nontrivial = len(r.nontrivial)
	r.sum.Rule = "distinct (section, mutation kind, key, whether the mutant has more diagnostics than the original)"
	r.sum.Dist["skipped:layout-not-supported"] = r.skipLayout
	r.sum.Dist["skipped:mutant-shape-differs"] = r.skipShape
	r.sum.Dist["skipped:mutant-not-yaml"] = r.skipYAML
	r.sum.Dist["coq-cases"] = len(kept)
	for k, v := range r.perSection {
		r.sum.Dist["site:"+k] = v
	}
	for i, c := range kept {
		if i%(len(kept)/5+1) == 0 {
			r.sum.Samples = append(r.sum.Samples, c.source)
		}
	}
	r.nonASCIIDuplicates()
	r.flowSiblings()
	for _, f := range r.fails {
		r.sum.OracleFails = append(r.sum.OracleFails, f)
	}
	um := hx.SortedKeys(r.unknownMsg)
	r.sum.Extra["unknown_messages"] = um
	r.sum.Extra["panics"] = r.panics
	r.sum.Write(filepath.Join(*out, "summary.json"))
	fmt.Printf("c13: %d inputs, %d evaluations, %d coq cases, %d oracle failures, %d panics, %d unknown messages, skipped layout/shape/yaml %d/%d/%d\n",
		len(inputs), r.sum.Evaluations, len(kept), len(r.fails), len(r.panics), len(um), r.skipLayout, r.skipShape, r.skipYAML)
}

// nonASCIIDuplicates: in the mappings whose keys are compared case-insensitively a key repeated
// in another letter case is a duplicate also when the letters are outside ASCII (the key is
// lower-cased as a whole).  One workflow per pair, a pair in every such mapping; the repetition
// must be reported at its own key (the lines ending in `# dup`).
func (r *runner) nonASCIIDuplicates() {
	for _, pr := range [][2]string{{"über", "Über"}, {"Ñandú", "ñandú"}, {"école_x", "ÉCOLE_X"}} {
		a, b := pr[0], pr[1]
		src := strings.NewReplacer("@A@", a, "@B@", b).Replace(`on:
  workflow_dispatch:
    inputs:
      @A@:
        type: string
      @B@: # dup
        type: string
  workflow_call:
    inputs:
      @A@:
        type: string
      @B@: # dup
        type: string
    secrets:
      @A@:
        required: false
      @B@: # dup
        required: false
    outputs:
      @A@:
        value: x
      @B@: # dup
        value: y
env:
  @A@: 1
  @B@: 2 # dup
jobs:
  @A@:
    runs-on: ubuntu-latest
    steps:
      - run: echo
  j:
    runs-on: ubuntu-latest
    env:
      @A@: 1
      @B@: 2 # dup
    outputs:
      @A@: x
      @B@: y # dup
    strategy:
      matrix:
        @A@: [1]
        @B@: [2] # dup
    services:
      @A@:
        image: x
      @B@: # dup
        image: y
    steps:
      - uses: actions/checkout@v4
        with:
          @A@: 1
          @B@: 2 # dup
        env:
          @A@: 1
          @B@: 2 # dup
  @B@: # dup
    runs-on: ubuntu-latest
    steps:
      - run: echo
`)
		res := runParse([]byte(src))
		r.sum.Evaluations++
		r.sum.Dist["non_ascii_duplicate_workflows"]++
		var missing []int
		for i, ln := range strings.Split(src, "\n") {
			if !strings.HasSuffix(ln, "# dup") {
				continue
			}
			col := len(ln) - len(strings.TrimLeft(ln, " ")) + 1
			found := false
			for _, d := range res.diags {
				if d.Code == 2 && d.Line == i+1 && d.Col == col {
					found = true
				}
			}
			if !found {
				missing = append(missing, i+1)
			}
		}
		if len(missing) > 0 || res.panic != "" {
			r.fails = append(r.fails, failure{What: "a key repeated in another letter case (letters outside ASCII) is not reported at the repetition", Key: "non-ascii-duplicate|" + a,
				File: "generated", Original: src, Mutant: src, Detail: map[string]interface{}{"lines_without_duplicate_report": missing, "got": res.diags, "panic": res.panic}})
		}
	}
}

// flowSiblings: sibling keys written on ONE line (flow style) are reported each at its own key:
// two foreign keys, a repetition next to a foreign key, an empty value next to a foreign key.
// manyDiagnostics: a file with more diagnostics than any fixed budget keeps every one of them.
func (r *runner) flowSiblings() {
	type tc struct{ name, src string }
	wrap := func(top, job, step string) string {
		s := "on: push\n" + top + "jobs:\n  j:\n    runs-on: ubuntu-latest\n" + job + "    steps:\n      - run: echo\n" + step
		return s
	}
	cases := []tc{
		{"concurrency", wrap("concurrency: {group: g, zzA: 1, zzB: 2}\n", "", "")},
		{"job concurrency", wrap("", "    concurrency: {group: g, zzA: 1, zzB: 2}\n", "")},
		{"environment", wrap("", "    environment: {name: n, zzA: 1, zzB: 2}\n", "")},
		{"environment, empty name first", wrap("", "    environment: {name: '', zzA: 1, zzB: 2}\n", "")},
		{"defaults.run", wrap("defaults: {run: {shell: bash, zzA: 1, zzB: 2}}\n", "", "")},
		{"container", wrap("", "    container: {image: x, zzA: 1, zzB: 2}\n", "")},
		{"credentials", wrap("", "    container: {image: x, credentials: {username: u, password: p, zzA: 1, zzB: 2}}\n", "")},
		{"strategy", wrap("", "    strategy: {matrix: {a: [1]}, zzA: 1, zzB: 2}\n", "")},
		{"step", wrap("", "", "      - {run: echo, zzA: 1, zzB: 2}\n")},
		{"step after a repetition", wrap("", "", "      - {run: echo, name: a, name: b, zzA: 1, zzB: 2}\n")},
		{"push filter", "on: {push: {branches: [main], zzA: 1, zzB: 2}}\njobs:\n  j:\n    runs-on: ubuntu-latest\n    steps:\n      - run: echo\n"},
		{"workflow_call input", "on: {workflow_call: {inputs: {i: {type: string, zzA: 1, zzB: 2}}}}\njobs:\n  j:\n    runs-on: ubuntu-latest\n    steps:\n      - run: echo\n"},
		{"workflow_call secret", "on: {workflow_call: {secrets: {s: {required: true, zzA: 1, zzB: 2}}}}\njobs:\n  j:\n    runs-on: ubuntu-latest\n    steps:\n      - run: echo\n"},
		{"job", "on: push\njobs:\n  j: {runs-on: ubuntu-latest, steps: [{run: echo}], zzA: 1, zzB: 2}\n"},
		{"top level", "{on: push, zzA: 1, zzB: 2, jobs: {j: {runs-on: ubuntu-latest, steps: [{run: echo}]}}}\n"},
	}
	for _, c := range cases {
		res := runParse([]byte(c.src))
		r.sum.Evaluations++
		r.sum.Dist["flow_sibling_workflows"]++
		var missing []string
		for i, ln := range strings.Split(c.src, "\n") {
			for _, k := range []string{"zzA", "zzB"} {
				at := strings.Index(ln, k+":")
				if at < 0 {
					continue
				}
				found := false
				for _, d := range res.diags {
					if d.Code == 1 && d.Line == i+1 && d.Col == at+1 {
						found = true
					}
				}
				if !found {
					missing = append(missing, fmt.Sprintf("%s at %d:%d", k, i+1, at+1))
				}
			}
		}
		if len(missing) > 0 || res.panic != "" {
			r.fails = append(r.fails, failure{What: "foreign keys written on one line (flow style) are not reported each at its own key", Key: "flow-siblings|" + c.name,
				File: "generated", Original: c.src, Mutant: c.src, Detail: map[string]interface{}{"not_reported": missing, "got": res.diags, "panic": res.panic}})
		}
	}
	// more diagnostics than any fixed budget: n jobs, each with a foreign key and without steps
	for _, n := range []int{40, 70, 200, 600} {
		var b strings.Builder
		b.WriteString("on: push\njobs:\n")
		for i := 0; i < n; i++ {
			fmt.Fprintf(&b, "  j%d:\n    runs-on: ubuntu-latest\n    zz-foreign-key: 1\n", i)
		}
		src := b.String()
		res := runParse([]byte(src))
		r.sum.Evaluations++
		r.sum.Dist["many_diagnostics_workflows"]++
		nf, nm := 0, 0
		for _, d := range res.diags {
			if d.Code == 1 {
				nf++
			}
			if d.Code == 43 {
				nm++
			}
		}
		if nf != n || nm != n || res.panic != "" {
			r.fails = append(r.fails, failure{What: fmt.Sprintf("%d jobs, each with a foreign key and without steps: %d foreign-key and %d missing-steps diagnostics (every one of the %d + %d is demanded)", n, nf, nm, n, n),
				Key: fmt.Sprintf("many-diagnostics|%d", n), File: "generated", Original: src, Mutant: src, Detail: map[string]interface{}{"panic": res.panic}})
		}
	}
}

func doReplay(path string) int {
	b, err := os.ReadFile(path)
	hx.Must(err)
	var f failure
	hx.Must(json.Unmarshal(b, &f))
	if f.Mutant == "" {
		fmt.Println("replay file carries no input (broken proof obligation or correspondence): see its 'broken' and 'first_disagreement' fields")
		var g map[string]interface{}
		json.Unmarshal(b, &g)
		if fd, ok := g["first_disagreement"].(map[string]interface{}); ok {
			if in, ok := fd["input"].(map[string]interface{}); ok {
				if src, ok := in["source"].(string); ok {
					res := runParse([]byte(src))
					fmt.Printf("implementation on the first disagreement input:\n%s\ndiagnostics (class, line, col): %+v\n", src, res.diags)
				}
			}
		}
		return 1
	}
	if strings.HasPrefix(f.Key, "flow-siblings|") || strings.HasPrefix(f.Key, "many-diagnostics|") {
		r := &runner{sum: hx.NewSummary("C13"), unknownMsg: map[string]bool{}, nontrivial: map[string]bool{}, perSection: map[string]int{}, second: map[string]bool{}}
		r.flowSiblings()
		for _, g := range r.fails {
			if g.Key == f.Key {
				o := g.Original
				if len(o) > 2000 {
					o = o[:2000]
				}
				fmt.Printf("REPRODUCED: %s %v\n%s", g.What, g.Detail, o)
				return 1
			}
		}
		fmt.Println("not reproduced on this tree")
		return 0
	}
	if strings.HasPrefix(f.Key, "non-ascii-duplicate|") {
		r := &runner{sum: hx.NewSummary("C13"), unknownMsg: map[string]bool{}, nontrivial: map[string]bool{}, perSection: map[string]int{}, second: map[string]bool{}}
		r.nonASCIIDuplicates()
		for _, g := range r.fails {
			fmt.Printf("REPRODUCED: %s %v\n%s", g.What, g.Detail, g.Original)
			return 1
		}
		fmt.Println("not reproduced on this tree")
		return 0
	}
	fmt.Printf("property C13, %s\nfile %s, mutation %+v\n", f.What, f.File, f.Mutation)
	o := runParse([]byte(f.Original))
	m := runParse([]byte(f.Mutant))
	fmt.Printf("--- original\n%s--- diagnostics of the original (class, line, col)\n%+v\n", f.Original, o.diags)
	fmt.Printf("--- mutant\n%s--- diagnostics of the mutant\n%+v\n", f.Mutant, m.diags)
	r := &runner{sum: hx.NewSummary("C13"), unknownMsg: map[string]bool{}, nontrivial: map[string]bool{}, perSection: map[string]int{}, second: map[string]bool{}}
	if f.Mutation != nil && f.Mutation.Kind == "foreign" {
		r.pool = []string{f.Mutation.Key}
		r.poolAll = true
	}
	r.base(f.File, []byte(f.Original), func(*mutation) bool { return false })
	for _, g := range r.fails {
		if g.Mutant == f.Mutant && g.What == f.What {
			fmt.Printf("REPRODUCED: %s\n", g.What)
			return 1
		}
	}
	fmt.Println("not reproduced on this tree")
	return 0
}
