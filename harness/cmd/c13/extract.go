package main

// Translator (T) for C13: extracts from parse.go, with go/parser + go/ast,
//   - every key switch (`switch X.id { case "..." ... default: ... }` and the
//     if-forms `if X.id != "k" { unexpectedKey }`, `if X.id == "k" {..} else
//     { unexpectedKey }`) per parser function, in source order: the case
//     labels, whether the default branch calls unexpectedKey, the section
//     argument and the literal key list passed to unexpectedKey, and the literal
//     allowEmpty / caseSensitive arguments of the parseMapping /
//     parseSectionMapping call whose result the enclosing loop ranges over;
//   - every parseMapping / parseSectionMapping call with its literal arguments.
// and writes them as coq/Gen/GenParseKeys.v.

import (
	"fmt"
	"go/ast"
	"go/parser"
	"go/token"
	"os"
	"strconv"
	"strings"

	"verifharness/hx"
)

type genSite struct {
	fn         string
	labels     []string
	unexpected bool
	sec        string
	expected   []string
	ae, cs     string // "true" / "false" / "?" when not a literal
	what       string
}

type genMapping struct {
	fn, callee, what string
	ae, cs           string
}

func exprString(e ast.Expr) string {
	switch x := e.(type) {
	case *ast.BasicLit:
		if x.Kind == token.STRING {
			if s, err := strconv.Unquote(x.Value); err == nil {
				return s
			}
		}
		return x.Value
	case *ast.Ident:
		return "<" + x.Name + ">"
	case *ast.SelectorExpr:
		return "<" + strings.Trim(exprString(x.X), "<>") + "." + x.Sel.Name + ">"
	case *ast.CallExpr:
		// fmt.Sprintf("%q job", id.Value): keep the format
		if len(x.Args) > 0 {
			return "<call " + exprString(x.Args[0]) + ">"
		}
	}
	return "<expr>"
}

func isMappingCall(e ast.Expr) (*ast.CallExpr, string) {
	c, ok := e.(*ast.CallExpr)
	if !ok {
		return nil, ""
	}
	s, ok := c.Fun.(*ast.SelectorExpr)
	if !ok || (s.Sel.Name != "parseMapping" && s.Sel.Name != "parseSectionMapping") || len(c.Args) != 4 {
		return nil, ""
	}
	return c, s.Sel.Name
}

func boolLit(e ast.Expr) string {
	if id, ok := e.(*ast.Ident); ok && (id.Name == "true" || id.Name == "false") {
		return id.Name
	}
	return "?"
}

func idSelector(e ast.Expr) bool {
	s, ok := e.(*ast.SelectorExpr)
	return ok && s.Sel.Name == "id"
}

// find the unexpectedKey call directly inside a list of statements (not inside nested switches)
func findUnexpected(stmts []ast.Stmt) *ast.CallExpr {
	var found *ast.CallExpr
	for _, st := range stmts {
		ast.Inspect(st, func(n ast.Node) bool {
			if found != nil {
				return false
			}
			switch x := n.(type) {
			case *ast.SwitchStmt, *ast.RangeStmt, *ast.ForStmt:
				return false
			case *ast.CallExpr:
				if s, ok := x.Fun.(*ast.SelectorExpr); ok && s.Sel.Name == "unexpectedKey" {
					found = x
					return false
				}
			}
			return true
		})
	}
	return found
}

func stringList(e ast.Expr) []string {
	out := []string{}
	if cl, ok := e.(*ast.CompositeLit); ok {
		for _, el := range cl.Elts {
			out = append(out, exprString(el))
		}
	}
	return out
}

func extractFile(path string) ([]genSite, []genMapping, error) {
	fset := token.NewFileSet()
	f, err := parser.ParseFile(fset, path, nil, 0)
	if err != nil {
		return nil, nil, err
	}
	var sites []genSite
	var maps []genMapping
	for _, d := range f.Decls {
		fd, ok := d.(*ast.FuncDecl)
		if !ok || fd.Body == nil {
			continue
		}
		fn := fd.Name.Name
		// identifiers assigned from a mapping call in this function
		assigned := map[string]*ast.CallExpr{}
		ast.Inspect(fd.Body, func(n ast.Node) bool {
			if c, callee := isMappingCall(asExpr(n)); c != nil {
				maps = append(maps, genMapping{fn, callee, exprString(c.Args[0]), boolLit(c.Args[2]), boolLit(c.Args[3])})
			}
			if as, ok := n.(*ast.AssignStmt); ok && len(as.Lhs) == 1 && len(as.Rhs) == 1 {
				if c, _ := isMappingCall(as.Rhs[0]); c != nil {
					if id, ok := as.Lhs[0].(*ast.Ident); ok {
						assigned[id.Name] = c
					}
				}
			}
			return true
		})
		// walk with a stack of enclosing range statements
		var stack []*ast.CallExpr // mapping call of each enclosing range (nil when none)
		var visit func(n ast.Node)
		flags := func() (string, string, string) {
			for i := len(stack) - 1; i >= 0; i-- {
				if stack[i] != nil {
					c := stack[i]
					return boolLit(c.Args[2]), boolLit(c.Args[3]), exprString(c.Args[0])
				}
			}
			return "?", "?", ""
		}
		addSite := func(labels []string, call *ast.CallExpr) {
			ae, cs, what := flags()
			s := genSite{fn: fn, labels: labels, ae: ae, cs: cs, what: what, expected: []string{}}
			if call != nil && len(call.Args) == 3 {
				s.unexpected = true
				s.sec = exprString(call.Args[1])
				s.expected = stringList(call.Args[2])
			}
			sites = append(sites, s)
		}
		visit = func(n ast.Node) {
			switch x := n.(type) {
			case nil:
				return
			case *ast.RangeStmt:
				var c *ast.CallExpr
				if mc, _ := isMappingCall(x.X); mc != nil {
					c = mc
				} else if id, ok := x.X.(*ast.Ident); ok {
					c = assigned[id.Name]
				}
				stack = append(stack, c)
				visit(x.Body)
				stack = stack[:len(stack)-1]
				return
			case *ast.SwitchStmt:
				if x.Tag != nil && idSelector(x.Tag) {
					labels := []string{}
					var def *ast.CaseClause
					for _, st := range x.Body.List {
						cc := st.(*ast.CaseClause)
						if cc.List == nil {
							def = cc
						}
						for _, e := range cc.List {
							labels = append(labels, exprString(e))
						}
					}
					if def != nil {
						addSite(labels, findUnexpected(def.Body))
					}
				}
				visit(x.Body)
				return
			case *ast.IfStmt:
				if be, ok := x.Cond.(*ast.BinaryExpr); ok && idSelector(be.X) {
					if lit, ok := be.Y.(*ast.BasicLit); ok && lit.Kind == token.STRING {
						var call *ast.CallExpr
						if be.Op == token.NEQ {
							call = findUnexpected(x.Body.List)
						} else if be.Op == token.EQL && x.Else != nil {
							if blk, ok := x.Else.(*ast.BlockStmt); ok {
								call = findUnexpected(blk.List)
							}
						}
						if call != nil {
							addSite([]string{exprString(lit)}, call)
						}
					}
				}
			}
			// generic descent over children
			children(n, visit)
		}
		visit(fd.Body)
	}
	return sites, maps, nil
}

func asExpr(n ast.Node) ast.Expr {
	if e, ok := n.(ast.Expr); ok {
		return e
	}
	return nil
}

// children calls f on the direct children of n
func children(n ast.Node, f func(ast.Node)) {
	first := true
	ast.Inspect(n, func(c ast.Node) bool {
		if first {
			first = false
			return true
		}
		if c != nil {
			f(c)
		}
		return false
	})
}

func coqStrList(xs []string) string {
	ys := make([]string, len(xs))
	for i, x := range xs {
		ys[i] = hx.CoqStr(x)
	}
	return "[" + strings.Join(ys, "; ") + "]"
}

func coqBool3(s string) string {
	switch s {
	case "true":
		return "(Some true)"
	case "false":
		return "(Some false)"
	}
	return "None"
}

func doExtract(src, out string) int {
	sites, maps, err := extractFile(src)
	if err != nil {
		fmt.Fprintln(os.Stderr, "extract:", err)
		return 2
	}
	var sb strings.Builder
	sb.WriteString("(* Gen/GenParseKeys.v — GENERATED on every run of ./check C13 from parse.go by\n   harness/cmd/c13 (-extract); do not edit.  Key switches of every parser\n   function in source order and every parseMapping/parseSectionMapping call. *)\n")
	sb.WriteString("From AL Require Import Base.Str.\n\n")
	sb.WriteString("Record gen_site := GS {\n  gs_fn : string;                 (* parser function *)\n  gs_labels : list string;        (* case labels of the switch over the key id *)\n  gs_unexpected : bool;           (* the default branch calls unexpectedKey *)\n  gs_sec : string;                (* section argument of unexpectedKey *)\n  gs_expected : list string;      (* literal key list passed to unexpectedKey *)\n  gs_allow_empty : option bool;   (* literal arguments of the parseMapping call the loop ranges over *)\n  gs_case_sensitive : option bool;\n  gs_what : string }.\n\n")
	sb.WriteString("Definition gen_sites : list gen_site := [\n")
	for i, s := range sites {
		sep := ";"
		if i == len(sites)-1 {
			sep = ""
		}
		fmt.Fprintf(&sb, "  GS %s %s %s %s %s %s %s %s%s\n", hx.CoqStr(s.fn), coqStrList(s.labels), hx.CoqBool(s.unexpected),
			hx.CoqStr(s.sec), coqStrList(s.expected), coqBool3(s.ae), coqBool3(s.cs), hx.CoqStr(s.what), sep)
	}
	sb.WriteString("].\n\n(* (function, callee, first argument, allowEmpty, caseSensitive) *)\n")
	sb.WriteString("Definition gen_mappings : list (string * string * string * option bool * option bool) := [\n")
	for i, m := range maps {
		sep := ";"
		if i == len(maps)-1 {
			sep = ""
		}
		fmt.Fprintf(&sb, "  (%s, %s, %s, %s, %s)%s\n", hx.CoqStr(m.fn), hx.CoqStr(m.callee), hx.CoqStr(m.what), coqBool3(m.ae), coqBool3(m.cs), sep)
	}
	sb.WriteString("].\n")
	if err := os.WriteFile(out, []byte(sb.String()), 0o644); err != nil {
		fmt.Fprintln(os.Stderr, "extract:", err)
		return 2
	}
	return 0
}
