package main

// Reference grammar of the workflow syntax, written from GitHub's
// "Workflow syntax for GitHub Actions" reference (and DESIGN.md Appendix C for
// the case-sensitivity column); it does not look at parse.go.  It tells the
// oracle, for every mapping node of a workflow, which section it is, whether
// the key set is fixed, whether key names are case-insensitive and which keys
// are mandatory.

import (
	"gopkg.in/yaml.v3"
)

type vs struct {
	sec  *sec // when the value is a mapping
	item *vs  // when the value is a sequence: its elements
}

type sec struct {
	name    string
	closed  bool // key set fixed by the syntax
	ci      bool // key names are case-insensitive (ids, names)
	keys    map[string]*vs
	other   *vs      // open sections: the value of any other key
	mand    []string // unconditionally mandatory keys
	special string   // "job", "step", "schedule-item"
}

func scalarKeys(ks ...string) map[string]*vs {
	m := map[string]*vs{}
	for _, k := range ks {
		m[k] = nil
	}
	return m
}

func (s *sec) with(k string, v *vs) *sec { s.keys[k] = v; return s }

var workflowSpec *sec

func init() {
	scalars := &sec{name: "names", ci: true, keys: map[string]*vs{}}
	named := func(n string) *sec { c := *scalars; c.name = n; c.keys = map[string]*vs{}; return &c }
	env := named("env")

	rawMap := &sec{name: "matrix row value", ci: true, keys: map[string]*vs{}}
	raw := &vs{sec: rawMap}
	raw.item = raw
	rawMap.other = raw
	combo := &sec{name: "include/exclude element", ci: true, keys: map[string]*vs{}, other: raw}
	matrix := &sec{name: "matrix", ci: true, keys: map[string]*vs{
		"include": {item: &vs{sec: combo}}, "exclude": {item: &vs{sec: combo}}}, other: &vs{item: raw}}
	strategy := &sec{name: "strategy", closed: true, keys: scalarKeys("fail-fast", "max-parallel")}
	strategy.with("matrix", &vs{sec: matrix})

	credentials := &sec{name: "credentials", closed: true, keys: scalarKeys("username", "password"), mand: []string{"username", "password"}}
	container := func(n string) *sec {
		c := &sec{name: n, closed: true, keys: scalarKeys("image", "ports", "volumes", "options")}
		c.with("credentials", &vs{sec: credentials}).with("env", &vs{sec: env})
		return c
	}
	services := &sec{name: "services", ci: true, keys: map[string]*vs{}, other: &vs{sec: container("service container")}}

	step := &sec{name: "step", closed: true, special: "step",
		keys: scalarKeys("id", "if", "name", "uses", "run", "shell", "working-directory", "continue-on-error", "timeout-minutes")}
	step.with("env", &vs{sec: env}).with("with", &vs{sec: named("step with")})

	runsOn := &sec{name: "runs-on", closed: true, keys: scalarKeys("labels", "group")}
	environment := &sec{name: "environment", closed: true, keys: scalarKeys("name", "url"), mand: []string{"name"}}
	concurrency := &sec{name: "concurrency", closed: true, keys: scalarKeys("group", "cancel-in-progress"), mand: []string{"group"}}
	defaultsRun := &sec{name: "defaults.run", closed: true, keys: scalarKeys("shell", "working-directory")}
	defaults := &sec{name: "defaults", closed: true, keys: map[string]*vs{"run": {sec: defaultsRun}}, mand: []string{"run"}}
	permissions := named("permissions")

	job := &sec{name: "job", closed: true, special: "job",
		keys: scalarKeys("name", "needs", "if", "timeout-minutes", "continue-on-error", "uses")}
	job.with("runs-on", &vs{sec: runsOn}).with("permissions", &vs{sec: permissions}).
		with("environment", &vs{sec: environment}).with("concurrency", &vs{sec: concurrency}).
		with("outputs", &vs{sec: named("job outputs")}).with("env", &vs{sec: env}).
		with("defaults", &vs{sec: defaults}).with("steps", &vs{item: &vs{sec: step}}).
		with("strategy", &vs{sec: strategy}).with("container", &vs{sec: container("container")}).
		with("services", &vs{sec: services}).with("with", &vs{sec: named("job with")}).
		with("secrets", &vs{sec: named("job secrets")})
	jobs := &sec{name: "jobs", ci: true, keys: map[string]*vs{}, other: &vs{sec: job}}

	scheduleItem := &sec{name: "schedule item", closed: true, special: "schedule-item", keys: scalarKeys("cron")}
	wdInput := &sec{name: "workflow_dispatch input", closed: true, keys: scalarKeys("description", "required", "default", "type", "options")}
	wd := &sec{name: "workflow_dispatch", closed: true, keys: map[string]*vs{
		"inputs": {sec: &sec{name: "workflow_dispatch inputs", ci: true, keys: map[string]*vs{}, other: &vs{sec: wdInput}}}}}
	rd := &sec{name: "repository_dispatch", closed: true, keys: scalarKeys("types")}
	webhook := &sec{name: "webhook event", closed: true,
		keys: scalarKeys("types", "branches", "branches-ignore", "tags", "tags-ignore", "paths", "paths-ignore", "workflows")}
	wcInput := &sec{name: "workflow_call input", closed: true, keys: scalarKeys("description", "required", "default", "type"), mand: []string{"type"}}
	wcSecret := &sec{name: "workflow_call secret", closed: true, keys: scalarKeys("description", "required")}
	wcOutput := &sec{name: "workflow_call output", closed: true, keys: scalarKeys("description", "value"), mand: []string{"value"}}
	ids := func(n string, s *sec) *vs {
		return &vs{sec: &sec{name: n, ci: true, keys: map[string]*vs{}, other: &vs{sec: s}}}
	}
	wc := &sec{name: "workflow_call", closed: true, keys: map[string]*vs{
		"inputs": ids("workflow_call inputs", wcInput), "secrets": ids("workflow_call secrets", wcSecret), "outputs": ids("workflow_call outputs", wcOutput)}}
	on := &sec{name: "on", keys: map[string]*vs{
		"schedule": {item: &vs{sec: scheduleItem}}, "workflow_dispatch": {sec: wd},
		"repository_dispatch": {sec: rd}, "workflow_call": {sec: wc}}, other: &vs{sec: webhook}}

	workflowSpec = &sec{name: "workflow", closed: true, keys: scalarKeys("name", "run-name"), mand: []string{"on", "jobs"}}
	workflowSpec.with("on", &vs{sec: on}).with("permissions", &vs{sec: permissions}).with("env", &vs{sec: env}).
		with("defaults", &vs{sec: defaults}).with("concurrency", &vs{sec: concurrency}).with("jobs", &vs{sec: jobs})
}

// mandatory: is key k of this mapping mandatory (ctx = keys present)?
func (s *sec) mandatory(k string, ctx map[string]bool) bool {
	for _, m := range s.mand {
		if m == k {
			return true
		}
	}
	switch s.special {
	case "job": // runs-on and steps unless the job calls a reusable workflow
		return (k == "runs-on" || k == "steps") && !ctx["uses"]
	case "step": // one of run / uses
		return k == "run" && !ctx["uses"] && !ctx["with"] || k == "uses" && !ctx["run"] && !ctx["shell"]
	}
	return false
}

// specSites lists the mapping nodes of a workflow that the grammar gives a
// meaning to.  It does not descend below a repeated key, below a key outside a
// fixed key set, or below `with` of a step that runs a script / `uses`-family
// keys that conflict with an earlier `run` (those values are not part of the
// workflow according to the syntax).
func specSites(doc *yaml.Node) []site {
	var out []site
	if doc.Kind != yaml.DocumentNode || len(doc.Content) == 0 {
		return nil
	}
	var visit func(n *yaml.Node, path []int, v *vs)
	visit = func(n *yaml.Node, path []int, v *vs) {
		if v == nil {
			return
		}
		switch n.Kind {
		case yaml.SequenceNode:
			for i, c := range n.Content {
				visit(c, append(append([]int(nil), path...), i), v.item)
			}
		case yaml.MappingNode:
			if v.sec == nil || len(n.Content)%2 != 0 {
				return
			}
			s := v.sec
			ctx := map[string]bool{}
			for i := 0; i < len(n.Content); i += 2 {
				ctx[n.Content[i].Value] = true
			}
			out = append(out, site{n, append([]int(nil), path...), s, ctx})
			seen := map[string]bool{}
			family := ""
			for i := 0; i < len(n.Content); i += 2 {
				k := n.Content[i]
				if k.Kind != yaml.ScalarNode {
					continue
				}
				id := k.Value
				if s.ci {
					id = asciiLower(id)
				}
				if seen[id] {
					continue
				}
				seen[id] = true
				sub, known := s.keys[id]
				if !known {
					if s.closed {
						continue
					}
					sub = s.other
				}
				if s.special == "step" {
					f := ""
					switch id {
					case "uses", "with":
						f = "action"
					case "run", "shell":
						f = "run"
					}
					if f != "" {
						if family == "" {
							family = f
						} else if family != f {
							continue
						}
					}
				}
				visit(n.Content[i+1], append(append([]int(nil), path...), i+1), sub)
			}
		}
	}
	visit(doc.Content[0], []int{0}, &vs{sec: workflowSpec})
	return out
}

// ---------------------------------------------------------------- synthetic workflows

// every section populated, valid values
var synthetic = []string{
	`name: every key
run-name: run ${{ github.actor }}
on:
  push:
    branches: [main]
    branches-ignore: [x]
    tags: [v1]
    tags-ignore: [y]
    paths: [a]
    paths-ignore: [b]
  pull_request:
    types: [opened]
  workflow_run:
    workflows: [ci]
    types: [completed]
  schedule:
    - cron: '0 0 * * *'
    - cron: '0 1 * * *'
  workflow_dispatch:
    inputs:
      level:
        description: Level
        required: true
        default: warning
        type: choice
        options:
          - info
          - warning
      flag:
        type: boolean
  repository_dispatch:
    types: [a, b]
  workflow_call:
    inputs:
      user:
        description: name
        required: false
        default: me
        type: string
    secrets:
      token:
        description: tok
        required: true
    outputs:
      out1:
        description: o
        value: ${{ jobs.build.outputs.o }}
permissions:
  contents: read
  issues: write
env:
  TOP: 1
  OTHER: two
defaults:
  run:
    shell: bash
    working-directory: src
concurrency:
  group: g-${{ github.ref }}
  cancel-in-progress: true
jobs:
  build:
    name: Build
    needs: []
    runs-on:
      group: big
      labels: [linux]
    permissions:
      contents: read
    environment:
      name: prod
      url: https://example.com
    concurrency:
      group: j
      cancel-in-progress: false
    outputs:
      o: ${{ steps.s.outputs.x }}
    env:
      A: b
    defaults:
      run:
        shell: sh
        working-directory: w
    if: always()
    timeout-minutes: 10
    strategy:
      matrix:
        os: [linux, mac]
        node:
          - 1
          - v: 2
            w: {x: 1, y: [2]}
        include:
          - os: linux
            extra: 1
        exclude:
          - os: mac
            node: 1
      fail-fast: true
      max-parallel: 2
    continue-on-error: false
    container:
      image: node:18
      credentials:
        username: u
        password: p
      env:
        C: d
      ports: [80]
      volumes: ['a:b']
      options: --cpus 1
    services:
      redis:
        image: redis
        credentials:
          username: u2
          password: p2
        env:
          R: s
        ports: ['6379:6379']
        volumes: ['c:d']
        options: --name r
    steps:
      - id: s
        if: true
        name: first
        env:
          S: t
        continue-on-error: true
        timeout-minutes: 1
        run: echo
        shell: bash
        working-directory: d
      - name: second
        uses: actions/checkout@v4
        with:
          entrypoint: e
          args: a b
          ref: main
      - run: echo only
      - uses: docker://alpine
  call:
    name: Call
    needs: [build]
    if: true
    permissions:
      contents: read
    uses: o/r/.github/workflows/w.yml@main
    with:
      x: 1
      y: two
    secrets:
      s1: ${{ secrets.S }}
  call2:
    uses: ./.github/workflows/local.yml
    secrets: inherit
`,
	// every section populated, every value of the wrong kind or empty so that each
	// sibling carries a diagnostic of its own
	`name: [bad]
run-name: ''
on:
  push:
    branches: {a: b}
    tags: ''
    paths:
      - ''
  pull_request:
    types: {}
  schedule:
    - cron: ''
    - cron: [x]
  workflow_dispatch:
    inputs:
      level:
        description: [d]
        required: maybe
        default: {a: b}
        type: nothing
        options: x
  repository_dispatch:
    types: {a: b}
  workflow_call:
    inputs:
      user:
        description: [d]
        required: maybe
        default: [e]
        type: object
    secrets:
      token:
        description: [t]
        required: [r]
    outputs:
      out1:
        description: [o]
        value: ''
permissions:
  contents: [read]
  issues: ''
env:
  TOP: [1]
  OTHER: {a: b}
defaults:
  run:
    shell: ''
    working-directory: [w]
concurrency:
  group: ''
  cancel-in-progress: perhaps
jobs:
  build:
    name: [n]
    needs: {a: b}
    runs-on:
      group: ''
      labels: {a: b}
    permissions:
      contents: ''
    environment:
      name: ''
      url: [u]
    concurrency:
      group: [g]
      cancel-in-progress: 3
    outputs:
      o: [x]
    env:
      A: [b]
    defaults:
      run:
        shell: [s]
        working-directory: ''
    if: ''
    timeout-minutes: [1]
    strategy:
      matrix:
        os: plain
        node: &anc {a: b}
        include: plain
        exclude:
          - plain
          - os: *anc
      fail-fast: 3
      max-parallel: true
    continue-on-error: 5
    container:
      image: ''
      credentials:
        username: ''
        password: [p]
      env:
        C: [d]
      ports: x
      volumes: {a: b}
      options: [o]
    services:
      redis:
        image: [i]
        credentials:
          username: [u]
          password: ''
        env: plain
        ports: {a: b}
        volumes: y
        options: {a: b}
    steps:
      - id: ''
        if: [c]
        name: [n]
        env:
          S: [t]
        continue-on-error: 7
        timeout-minutes: {a: b}
        run: ''
        shell: [s]
        working-directory: ''
      - name: second
        uses: ''
        with:
          entrypoint: ''
          args: [a]
          ref: [main]
        working-directory: x
      - run: [echo]
        uses: late
      - uses: a/b@v1
        shell: late
  call:
    name: Call
    runs-on: ubuntu-latest
    uses: ''
    with:
      x: [1]
    secrets:
      s1: [s]
  call2:
    with:
      x: 1
    secrets: nope
    steps: []
    runs-on: []
`,
	// scalar / expression forms and empty sections
	`on: push
permissions: read-all
env: ${{ fromJSON('{}') }}
concurrency: grp
jobs:
  a:
    runs-on: ${{ matrix.os }}
    environment: prod
    concurrency: c
    container: node:18
    services: ${{ fromJSON('{}') }}
    strategy:
      matrix: ${{ fromJSON('{}') }}
    env: ${{ fromJSON('{}') }}
    steps:
      - run: echo
        env: ${{ fromJSON('{}') }}
  b:
    runs-on: [self-hosted, linux]
    strategy:
      matrix:
        include: ${{ fromJSON('[]') }}
        exclude:
          - ${{ fromJSON('{}') }}
        row: ${{ fromJSON('[]') }}
    steps:
      - uses: a/b@v1
  c:
    runs-on:
      labels: ${{ fromJSON('[]') }}
    steps:
      - run: x
`,
	`on: [push, schedule, workflow_dispatch, workflow_call, repository_dispatch, '']
defaults:
env:
permissions:
concurrency:
jobs:
  a:
    runs-on:
    steps:
    outputs:
    env:
    defaults:
      run:
    strategy:
    container:
    services:
    environment:
    permissions:
  b:
    runs-on: x
    steps:
      -
      - foo
      - []
  c: plain
  d: []
  e:
`,
	`on:
  schedule: plain
  workflow_dispatch:
  repository_dispatch:
  workflow_call:
  push:
jobs:
`,
	`on:
  workflow_dispatch:
    inputs:
  workflow_call:
    inputs:
      a:
      b: plain
    secrets:
      s:
    outputs:
      o:
  schedule: []
jobs: plain
`,
	`on:
  schedule:
    - plain
    - cron: x
      other: y
    - other: z
    - {}
    -
`,
	`jobs:
  a:
    runs-on: x
    steps:
      - run: x
`,
	`on: push
`,
	`- a
- b
`,
	`plain
`,
}
