package main

// (D) "their own defects are reported once per run": several files of one run use the same
// defective local action / call the same unreadable or invalid reusable workflow. The count of
// the callee's own diagnostics over the whole run must be exactly one per callee that some file of
// the run uses - under the free scheduler (GOMAXPROCS 1/4/16), and under the schedule forced
// through the verif hook, where every goroutine that missed the cache is held until all the files
// that use the callee have missed it (all probes before the first commit). The same counts are
// computed by the Coq model of the two-section lookup (Multi/CacheSplit.v, run_once).

import (
	"fmt"
	"io"
	"os"
	"path/filepath"
	"runtime"
	"strings"
	"sync"
	"time"

	"github.com/rhysd/actionlint"
	"verifharness/hx"
)

type callee struct {
	name   string // model key
	spec   string
	action bool
	marks  []string // substrings that identify the callee's own diagnostic
}

var callees = []callee{
	{"nodesc", "./.github/actions/nodesc", true, []string{"description is required", "nodesc"}},
	{"badyaml", "./.github/actions/badyaml", true, []string{"could not parse action metadata", "badyaml"}},
	{"missing", "./.github/workflows/missing.yml", false, []string{"could not read reusable workflow file", "missing.yml"}},
	{"broken", "./.github/workflows/broken.yml", false, []string{"error while parsing reusable workflow", "broken.yml"}},
	{"good", "./.github/actions/good", true, []string{"\"./.github/actions/good\""}},
}

func onceRuns(r *hx.Rng, scratch string, g int, sum *hx.Summary, cases io.Writer) int {
	root := filepath.Join(scratch, fmt.Sprintf("o%d", g), "proj")
	hx.Must(os.MkdirAll(filepath.Join(root, ".git"), 0o755))
	write(filepath.Join(root, ".github", "actions", "nodesc", "action.yml"), "name: Nodesc\nruns:\n  using: composite\n  steps:\n    - run: echo\n      shell: bash\n")
	write(filepath.Join(root, ".github", "actions", "badyaml", "action.yml"), "name: [\n")
	write(filepath.Join(root, ".github", "actions", "good", "action.yml"), "name: Good\ndescription: good\nruns:\n  using: composite\n  steps:\n    - run: echo\n      shell: bash\n")
	write(filepath.Join(root, ".github", "workflows", "broken.yml"), "on: push\njobs:\n  a:\n    runs-on: ubuntu-latest\n    steps:\n      - run: echo\n")
	n := 2 + r.Intn(5)
	var files []string
	var keyss [][]int
	for i := 0; i < n; i++ {
		k := 1 + r.Intn(4)
		var ks []int
		for j := 0; j < k; j++ {
			ks = append(ks, r.Intn(len(callees)))
		}
		if i < 2 && r.Intn(3) > 0 {
			ks[0] = g % 4 // two files share a defective callee most of the time
		}
		var b strings.Builder
		b.WriteString("on: push\njobs:\n")
		var acts []int
		for j, c := range ks {
			if callees[c].action {
				acts = append(acts, c)
			} else {
				fmt.Fprintf(&b, "  call%d:\n    uses: %s\n", j, callees[c].spec)
			}
		}
		if len(acts) > 0 {
			b.WriteString("  steps:\n    runs-on: ubuntu-latest\n    steps:\n")
			for _, c := range acts {
				fmt.Fprintf(&b, "      - uses: %s\n", callees[c].spec)
			}
		}
		f := filepath.Join(root, ".github", "workflows", fmt.Sprintf("caller%d.yml", i))
		write(f, b.String())
		files = append(files, f)
		keyss = append(keyss, ks)
	}
	nontrivial := 0
	runOne := func(sub []int, mode string, procs int) {
		var paths []string
		uses := map[int]int{}
		var kcoq []string
		for _, i := range sub {
			paths = append(paths, files[i])
			seen := map[int]bool{}
			var row []string
			for _, c := range keyss[i] {
				if !seen[c] {
					uses[c]++
				}
				seen[c] = true
				row = append(row, hx.CoqStr(callees[c].name))
			}
			kcoq = append(kcoq, hx.CoqList(row))
		}
		if mode == "held" {
			var mu sync.Mutex
			arrived := map[string]int{}
			gate := map[string]chan struct{}{}
			bySpec := map[string]int{}
			for c, k := range uses {
				bySpec[callees[c].spec] = k
			}
			actionlint.VerifCacheHook = func(kind, spec string) {
				mu.Lock()
				ch, ok := gate[spec]
				if !ok {
					ch = make(chan struct{})
					gate[spec] = ch
				}
				arrived[spec]++
				if arrived[spec] == bySpec[spec] {
					close(ch)
				}
				mu.Unlock()
				select {
				case <-ch:
				case <-time.After(40 * time.Millisecond):
				}
			}
		}
		runtime.GOMAXPROCS(procs)
		var errs []*actionlint.Error
		var err error
		if mode == "single" {
			errs, err = newLinter().LintFile(paths[0], nil)
		} else {
			errs, err = newLinter().LintFiles(paths, nil)
		}
		actionlint.VerifCacheHook = nil
		sum.Evaluations++
		sum.Dist["once_per_run_runs_"+mode]++
		if err != nil {
			sum.OracleFails = append(sum.OracleFails, failure{What: "fatal error in a run whose files share defective callees", Key: "fatal-once", Input: strings.Join(paths, " , "), Got: err.Error()})
			return
		}
		var names, obs []string
		shared := false
		for c, cl := range callees {
			cnt := 0
			for _, e := range errs {
				ok := true
				for _, m := range cl.marks {
					ok = ok && strings.Contains(e.Message, m)
				}
				if ok {
					cnt++
				}
			}
			want := 0
			if uses[c] > 0 && cl.name != "good" {
				want = 1
			}
			if uses[c] >= 2 && cl.name != "good" {
				shared = true
			}
			if cnt != want {
				var srcs []string
				for _, p := range paths {
					b, _ := os.ReadFile(p)
					srcs = append(srcs, filepath.Base(p)+":\n"+string(b))
				}
				sum.OracleFails = append(sum.OracleFails, failure{
					What:  fmt.Sprintf("the own defect of the local callee %s, used by %d file(s) of one run, is reported %d time(s) in the run instead of %d (mode %s: free = the scheduler's choice, held = every lookup that missed the cache waits for the others, single = LintFile)", cl.spec, uses[c], cnt, want, mode),
					Key:   fmt.Sprintf("once-per-run:multi-file:%s:%s", cl.name, map[bool]string{true: "more", false: "fewer"}[cnt > want]),
					Input: fmt.Sprintf("GOMAXPROCS=%d mode=%s, repository with .github/actions/nodesc (no description), badyaml (unparsable), good; .github/workflows/broken.yml (no workflow_call), missing.yml absent; files:\n%s", procs, mode, strings.Join(srcs, "\n")),
					Got:   fmt.Sprint(perFile(errs, cwd())), Want: fmt.Sprintf("%d", want)})
			}
			if cl.name != "good" {
				names = append(names, hx.CoqStr(cl.name))
				obs = append(obs, fmt.Sprintf("[%d]%%N", cnt))
			}
		}
		if shared {
			nontrivial++
			sum.Dist["once_per_run_runs_with_shared_defective_callee"]++
		}
		fmt.Fprintf(cases, "((%s, %s), %s)\n", hx.CoqList(kcoq), hx.CoqList(names), hx.CoqList(obs))
	}
	all := make([]int, n)
	for i := range all {
		all[i] = i
	}
	for k := 0; k < 3; k++ {
		runOne(r.Perm(n), "free", []int{1, 4, 16}[k])
	}
	for k := 0; k < 4; k++ {
		p := r.Perm(n)
		runOne(p[:2+r.Intn(n-1)], "held", []int{16, 4, 1, 16}[k])
	}
	runOne([]int{r.Intn(n)}, "single", 4)
	runtime.GOMAXPROCS(runtime.NumCPU())
	return nontrivial
}
