package main

// sequenced runs: the files of a multi-file run are visited ONE AFTER ANOTHER in a chosen order
// (every file still has its own goroutine; a rule added through LinterOptions.OnRulesCreated holds
// each file at the start of its visit until its turn has come). Order-dependent effects of the
// shared per-project caches - what an earlier file leaves behind for a later one - then show
// deterministically instead of by the scheduler's favour.

import (
	"bytes"
	"sync"
	"time"

	"github.com/rhysd/actionlint"

	"verifharness/hx"
)

type sequencer struct {
	mu    sync.Mutex
	cond  *sync.Cond
	order map[string]int // workflow name -> turn
	turn  int
}

func newSequencer(names []string) *sequencer {
	s := &sequencer{order: map[string]int{}}
	s.cond = sync.NewCond(&s.mu)
	for i, n := range names {
		s.order[n] = i
	}
	return s
}

func (s *sequencer) enter(name string) int {
	p, ok := s.order[name]
	if !ok {
		return -1
	}
	deadline := time.Now().Add(3 * time.Second)
	s.mu.Lock()
	for s.turn < p && time.Now().Before(deadline) {
		// (a file that never reaches its visit - it does not parse - must not hold the others for ever)
		t := time.AfterFunc(200*time.Millisecond, s.cond.Broadcast)
		s.cond.Wait()
		t.Stop()
	}
	s.mu.Unlock()
	return p
}

func (s *sequencer) leave(p int) {
	if p < 0 {
		return
	}
	s.mu.Lock()
	if s.turn <= p {
		s.turn = p + 1
	}
	s.mu.Unlock()
	s.cond.Broadcast()
}

type seqRule struct {
	actionlint.RuleBase
	s *sequencer
	p int
}

func (r *seqRule) VisitWorkflowPre(n *actionlint.Workflow) error {
	r.p = -1
	if n.Name != nil {
		r.p = r.s.enter(n.Name.Value)
	}
	return nil
}

func (r *seqRule) VisitWorkflowPost(n *actionlint.Workflow) error {
	r.s.leave(r.p)
	return nil
}

// sequencedLint lints the files with LintFiles; their visits happen in the order of names
func sequencedLint(wd string, files, names []string) ([]*actionlint.Error, error) {
	s := newSequencer(names)
	var out bytes.Buffer
	l, err := actionlint.NewLinter(&out, &actionlint.LinterOptions{Color: actionlint.ColorOptionKindNever, WorkingDir: wd,
		OnRulesCreated: func(rs []actionlint.Rule) []actionlint.Rule {
			return append(rs, &seqRule{RuleBase: actionlint.NewRuleBase("zz-sequencer", "holds the file until its turn"), s: s})
		}})
	hx.Must(err)
	return l.LintFiles(files, nil)
}
