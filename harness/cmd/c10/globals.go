package main

// Translator (T) for C10: "never modifies the built-in tables or the shared configuration".
// Every package-level variable of the package is state that all files, rules and goroutines of a
// run share.  They are listed from the source on every run (go/parser; test files and
// verif-tagged files excluded) into coq/Gen/GenGlobals.v; coq/Multi/Globals.v proves that each
// is one of the known ones: a read-only table (fingerprinted before and after the runs of this
// check where it is exported), a compiled pattern, a colour object, a build-information string.

import (
	"bytes"
	"fmt"
	"go/ast"
	"go/parser"
	"go/token"
	"os"
	"path/filepath"
	"sort"
	"strings"

	"verifharness/hx"
)

type globalVar struct{ file, name, shape string }

func shapeOf(e ast.Expr) string {
	switch e := e.(type) {
	case nil:
		return "zero"
	case *ast.CompositeLit:
		switch t := e.Type.(type) {
		case *ast.MapType:
			return "map"
		case *ast.ArrayType:
			return "slice"
		case *ast.Ident:
			return "struct:" + t.Name
		case *ast.SelectorExpr:
			return "struct:" + t.Sel.Name
		}
		return "composite"
	case *ast.BasicLit:
		return "literal"
	case *ast.CallExpr:
		if se, ok := e.Fun.(*ast.SelectorExpr); ok {
			if id, ok := se.X.(*ast.Ident); ok {
				return "call:" + id.Name + "." + se.Sel.Name
			}
		}
		if id, ok := e.Fun.(*ast.Ident); ok {
			return "call:" + id.Name
		}
		return "call"
	case *ast.UnaryExpr:
		return "addr:" + shapeOf(e.X)
	}
	return "expr"
}

func scanGlobals(repo string) ([]globalVar, error) {
	names, _ := filepath.Glob(filepath.Join(repo, "*.go"))
	sort.Strings(names)
	fset := token.NewFileSet()
	var out []globalVar
	for _, n := range names {
		if strings.HasSuffix(n, "_test.go") {
			continue
		}
		b, err := os.ReadFile(n)
		if err != nil {
			return nil, err
		}
		if bytes.HasPrefix(b, []byte("//go:build verif")) {
			continue
		}
		f, err := parser.ParseFile(fset, n, b, parser.SkipObjectResolution)
		if err != nil {
			return nil, err
		}
		if f.Name.Name != "actionlint" {
			continue
		}
		for _, d := range f.Decls {
			gd, ok := d.(*ast.GenDecl)
			if !ok || gd.Tok != token.VAR {
				continue
			}
			for _, sp := range gd.Specs {
				vs := sp.(*ast.ValueSpec)
				for i, id := range vs.Names {
					var v ast.Expr
					if i < len(vs.Values) {
						v = vs.Values[i]
					}
					out = append(out, globalVar{filepath.Base(n), id.Name, shapeOf(v)})
				}
			}
		}
	}
	sort.Slice(out, func(i, j int) bool {
		if out[i].file != out[j].file {
			return out[i].file < out[j].file
		}
		return out[i].name < out[j].name
	})
	return out, nil
}

// rootIdent: the identifier an lvalue / argument is built on (x, x[i], x.f, *x, x[i].f ...)
func rootIdent(e ast.Expr) *ast.Ident {
	for {
		switch t := e.(type) {
		case *ast.Ident:
			return t
		case *ast.IndexExpr:
			e = t.X
		case *ast.SelectorExpr:
			e = t.X
		case *ast.StarExpr:
			e = t.X
		case *ast.ParenExpr:
			e = t.X
		case *ast.SliceExpr:
			e = t.X
		default:
			return nil
		}
	}
}

type globalWrite struct{ file, fn, name, how string }

// scanGlobalWrites lists the statements that write a package-level variable or hand it to
// something that writes its argument in place (sort.*, delete, clear, copy, append-assignment).
func scanGlobalWrites(repo string, globals []globalVar) ([]globalWrite, error) {
	isGlobal := map[string]bool{}
	for _, g := range globals {
		isGlobal[g.name] = true
	}
	names, _ := filepath.Glob(filepath.Join(repo, "*.go"))
	sort.Strings(names)
	fset := token.NewFileSet()
	var out []globalWrite
	for _, n := range names {
		if strings.HasSuffix(n, "_test.go") {
			continue
		}
		b, err := os.ReadFile(n)
		if err != nil {
			return nil, err
		}
		if bytes.HasPrefix(b, []byte("//go:build verif")) {
			continue
		}
		f, err := parser.ParseFile(fset, n, b, 0) // with object resolution: a local variable of the same name is told apart
		if err != nil {
			return nil, err
		}
		if f.Name.Name != "actionlint" {
			continue
		}
		global := func(e ast.Expr) string {
			id := rootIdent(e)
			if id == nil || !isGlobal[id.Name] {
				return ""
			}
			if id.Obj != nil {
				// resolved inside this file: a package-level declaration has a ValueSpec whose parent is the file
				vs, ok := id.Obj.Decl.(*ast.ValueSpec)
				if !ok {
					return ""
				}
				top := false
				for _, d := range f.Decls {
					if gd, ok := d.(*ast.GenDecl); ok {
						for _, sp := range gd.Specs {
							if sp == ast.Spec(vs) {
								top = true
							}
						}
					}
				}
				if !top {
					return ""
				}
			}
			return id.Name
		}
		for _, d := range f.Decls {
			fd, ok := d.(*ast.FuncDecl)
			if !ok || fd.Body == nil {
				continue
			}
			fn := fd.Name.Name
			if fd.Recv != nil && len(fd.Recv.List) == 1 {
				t := fd.Recv.List[0].Type
				if st, ok := t.(*ast.StarExpr); ok {
					t = st.X
				}
				if id, ok := t.(*ast.Ident); ok {
					fn = id.Name + "." + fn
				}
			}
			base := filepath.Base(n)
			ast.Inspect(fd.Body, func(x ast.Node) bool {
				switch st := x.(type) {
				case *ast.AssignStmt:
					if st.Tok == token.DEFINE {
						return true
					}
					for _, l := range st.Lhs {
						if g := global(l); g != "" {
							out = append(out, globalWrite{base, fn, g, "assign"})
						}
					}
				case *ast.IncDecStmt:
					if g := global(st.X); g != "" {
						out = append(out, globalWrite{base, fn, g, "incdec"})
					}
				case *ast.CallExpr:
					name := ""
					switch fun := st.Fun.(type) {
					case *ast.Ident:
						name = fun.Name
					case *ast.SelectorExpr:
						if id, ok := fun.X.(*ast.Ident); ok {
							name = id.Name + "." + fun.Sel.Name
						}
					}
					inPlace := name == "delete" || name == "clear" || name == "copy" || strings.HasPrefix(name, "sort.") || strings.HasPrefix(name, "slices.Sort") || name == "slices.Reverse"
					if inPlace && len(st.Args) > 0 {
						if g := global(st.Args[0]); g != "" {
							out = append(out, globalWrite{base, fn, g, name})
						}
					}
				}
				return true
			})
		}
	}
	return out, nil
}

func doExtractGlobals(repo, gen string) int {
	gs, err := scanGlobals(repo)
	if err != nil {
		fmt.Fprintln(os.Stderr, "extract-globals:", err)
		return 2
	}
	ws, err := scanGlobalWrites(repo, gs)
	if err != nil {
		fmt.Fprintln(os.Stderr, "extract-globals:", err)
		return 2
	}
	var sb strings.Builder
	sb.WriteString("(* Gen/GenGlobals.v — GENERATED on every run of ./check C10 from the .go files of the package\n   by harness/cmd/c10 (-extract-globals); do not edit.  Every package-level variable:\n   (file, name, shape of its initialiser). *)\n")
	sb.WriteString("From AL Require Import Base.Str.\n\n")
	sb.WriteString("Definition package_vars : list (string * string * string) := [\n")
	for i, g := range gs {
		sep := ";"
		if i == len(gs)-1 {
			sep = ""
		}
		fmt.Fprintf(&sb, "  (%s, %s, %s)%s\n", hx.CoqStr(g.file), hx.CoqStr(g.name), hx.CoqStr(g.shape), sep)
	}
	sb.WriteString("].\n\n(* statements that write a package-level variable, or hand it to a function that writes its\n   argument in place: (file, function, variable, how) *)\n")
	sb.WriteString("Definition package_var_writes : list (string * string * string * string) := [\n")
	for i, w := range ws {
		sep := ";"
		if i == len(ws)-1 {
			sep = ""
		}
		fmt.Fprintf(&sb, "  (%s, %s, %s, %s)%s\n", hx.CoqStr(w.file), hx.CoqStr(w.fn), hx.CoqStr(w.name), hx.CoqStr(w.how), sep)
	}
	sb.WriteString("].\n")
	if err := os.WriteFile(gen, []byte(sb.String()), 0o644); err != nil {
		fmt.Fprintln(os.Stderr, "extract-globals:", err)
		return 2
	}
	return 0
}
