// Command c10: multi-file isolation harness for property C10.
//
//	(A) attribution: directory trees with sibling repositories whose names share
//	    a prefix and repositories nested in others; every history of look-ups
//	    through actionlint.Projects.At is compared with the nearest enclosing
//	    root (oracle) and dumped for the Coq model (K);
//	(B) isolation: repositories with local actions and reusable workflows;
//	    every file is linted alone on a fresh Linter and in subsets / orders /
//	    GOMAXPROCS settings through LintFiles; the per-file diagnostics must be
//	    the same (oracle = the property verbatim);
//	(C) tables: deep fingerprints of the exported built-in tables and of the
//	    shared configuration before and after every run.
//
// Built with -race by the check: a detected data race makes the process exit
// with status 66.
package main

import (
	"bytes"
	"encoding/json"
	"flag"
	"fmt"
	"os"
	"path/filepath"
	"reflect"
	"runtime"
	"sort"
	"strings"

	"github.com/rhysd/actionlint"

	"verifharness/hx"
)

type failure struct {
	What  string `json:"what"`
	Key   string `json:"key"`
	Input string `json:"input"`
	Got   string `json:"got"`
	Want  string `json:"want"`
}

// ---------------------------------------------------------------- fingerprints

func fp(b *strings.Builder, v reflect.Value, depth int, seen map[uintptr]bool) {
	if depth > 12 {
		b.WriteString("…")
		return
	}
	switch v.Kind() {
	case reflect.Ptr:
		if v.IsNil() {
			b.WriteString("nil")
			return
		}
		if seen[v.Pointer()] {
			b.WriteString("<cycle>")
			return
		}
		seen[v.Pointer()] = true
		b.WriteString("&")
		fp(b, v.Elem(), depth+1, seen)
		delete(seen, v.Pointer())
	case reflect.Interface:
		if v.IsNil() {
			b.WriteString("nil")
			return
		}
		b.WriteString(v.Elem().Type().String() + ":")
		fp(b, v.Elem(), depth+1, seen)
	case reflect.Map:
		keys := v.MapKeys()
		sort.Slice(keys, func(i, j int) bool { return fmt.Sprint(keys[i]) < fmt.Sprint(keys[j]) })
		b.WriteString("map{")
		for _, k := range keys {
			fmt.Fprintf(b, "%v=>", k)
			fp(b, v.MapIndex(k), depth+1, seen)
			b.WriteString(",")
		}
		b.WriteString("}")
	case reflect.Slice, reflect.Array:
		b.WriteString("[")
		for i := 0; i < v.Len(); i++ {
			fp(b, v.Index(i), depth+1, seen)
			b.WriteString(",")
		}
		b.WriteString("]")
	case reflect.Struct:
		b.WriteString("{")
		for i := 0; i < v.NumField(); i++ {
			if v.Type().Field(i).PkgPath != "" { // unexported
				continue
			}
			b.WriteString(v.Type().Field(i).Name + ":")
			fp(b, v.Field(i), depth+1, seen)
			b.WriteString(",")
		}
		b.WriteString("}")
	case reflect.Func:
		b.WriteString("func")
	default:
		fmt.Fprintf(b, "%v", v)
	}
}

func fingerprint(x interface{}) string {
	var b strings.Builder
	fp(&b, reflect.ValueOf(x), 0, map[uintptr]bool{})
	return b.String()
}

type tableFP map[string]string

func tables() tableFP {
	return tableFP{
		"AllWebhookTypes":            fingerprint(actionlint.AllWebhookTypes),
		"BuiltinGlobalVariableTypes": fingerprint(actionlint.BuiltinGlobalVariableTypes),
		"BuiltinFuncSignatures":      fingerprint(actionlint.BuiltinFuncSignatures),
		"PopularActions":             fingerprint(actionlint.PopularActions),
		"BuiltinUntrustedInputs":     fingerprint(actionlint.BuiltinUntrustedInputs),
		"BrandingColors":             fingerprint(actionlint.BrandingColors),
		"BrandingIcons":              fingerprint(actionlint.BrandingIcons),
		"SpecialFunctionNames":       fingerprint(actionlint.SpecialFunctionNames),
		"OutdatedPopularActionSpecs": fingerprint(actionlint.OutdatedPopularActionSpecs),
	}
}

// ---------------------------------------------------------------- repositories on disk

func write(path, content string) {
	hx.Must(os.MkdirAll(filepath.Dir(path), 0o755))
	hx.Must(os.WriteFile(path, []byte(content), 0o644))
}

type iface struct {
	names     []string
	req       []bool
	def       []bool
	typ       []string
	nulldef   []bool // `default:` written with a null value
	noOutputs bool   // reusable workflow without an `outputs:` section
	// reusable workflow: `required:` of the input / of the secret is given by a ${{ }} placeholder
	// (the workflow parser accepts that wherever a boolean is expected)
	reqExpr    []bool
	secReqExpr bool
}

var namePool = []string{"alpha", "Beta", "gamma", "delta", "Epsilon", "zeta"}

func genIface(r *hx.Rng) iface {
	f := iface{}
	p := r.Perm(len(namePool))
	n := 1 + r.Intn(4)
	for i := 0; i < n; i++ {
		f.names = append(f.names, namePool[p[i]])
		f.req = append(f.req, r.Chance(1, 2))
		f.def = append(f.def, r.Chance(1, 3))
		f.typ = append(f.typ, []string{"string", "number", "boolean"}[r.Intn(3)])
		f.nulldef = append(f.nulldef, r.Chance(1, 4))
		f.reqExpr = append(f.reqExpr, r.Chance(1, 6))
	}
	f.secReqExpr = r.Chance(1, 6)
	f.noOutputs = r.Chance(1, 3)
	return f
}

func (f iface) actionYAML(name string) string {
	var b strings.Builder
	fmt.Fprintf(&b, "name: %s\ndescription: generated\ninputs:\n", name)
	for i, n := range f.names {
		fmt.Fprintf(&b, "  %s:\n    description: d\n    required: %v\n", n, f.req[i])
		if f.def[i] {
			b.WriteString("    default: dflt\n")
		}
	}
	b.WriteString("outputs:\n  out1:\n    description: o\nruns:\n  using: node20\n  main: index.js\n")
	return b.String()
}

func (f iface) calleeYAML() string {
	var b strings.Builder
	b.WriteString("on:\n  workflow_call:\n    inputs:\n")
	for i, n := range f.names {
		req := fmt.Sprint(f.req[i])
		// (the three spellings YAML has for a boolean: the file-derived and the AST-derived interface agree on them)
		switch (i + len(n)) % 3 {
		case 1:
			req = strings.ToUpper(req[:1]) + req[1:]
		case 2:
			req = strings.ToUpper(req)
		}
		if f.reqExpr != nil && f.reqExpr[i] {
			req = "${{ github.event_name == 'push' }}"
		}
		fmt.Fprintf(&b, "      %s:\n        type: %s\n        required: %s\n", n, f.typ[i], req)
		if f.nulldef != nil && f.nulldef[i] {
			b.WriteString("        default:" + []string{"", " null", " ~", " !!null ''"}[(i+len(n))%4] + "\n")
		} else if f.def[i] {
			switch f.typ[i] {
			case "string":
				b.WriteString("        default: dflt\n")
			case "number":
				b.WriteString("        default: 1\n")
			default:
				b.WriteString("        default: true\n")
			}
		}
	}
	if f.secReqExpr {
		b.WriteString("    secrets:\n      tok:\n        required: ${{ true }}\n")
	} else {
		b.WriteString("    secrets:\n      tok:\n        required: " + []string{"true", "True", "TRUE"}[len(f.names)%3] + "\n")
	}
	if !f.noOutputs {
		b.WriteString("    outputs:\n      res:\n        value: ${{ jobs.j.outputs.o }}\n")
	}
	b.WriteString("jobs:\n  j:\n    runs-on: ubuntu-latest\n    outputs:\n      o: ${{ steps.s.outputs.v }}\n    steps:\n      - id: s\n        run: echo \"v=1\" >> \"$GITHUB_OUTPUT\"\n")
	return b.String()
}

// caller workflow using local action `act` and reusable workflow `wf` with a
// random subset of inputs, plus unrelated diagnostics (a bad webhook type, an
// undefined config variable) that exercise the shared tables.
func callerYAML(r *hx.Rng, act string, af iface, wf string, wfi iface) string {
	var b strings.Builder
	if r.Chance(1, 3) {
		b.WriteString("on:\n  pull_request:\n    types: [opened, bogus_type]\n")
	} else {
		b.WriteString("on: push\n")
	}
	b.WriteString("jobs:\n  use:\n    runs-on: ubuntu-latest\n    steps:\n")
	b.WriteString("      - run: echo ${{ github.zz_mark }}\n")
	fmt.Fprintf(&b, "      - uses: %s\n", act)
	var with []string
	for i, n := range af.names {
		if r.Chance(1, 2) {
			with = append(with, fmt.Sprintf("          %s: v%d\n", n, i))
		}
	}
	if r.Chance(1, 4) {
		with = append(with, "          unknown_input: x\n")
	}
	if len(with) > 0 {
		b.WriteString("        with:\n" + strings.Join(with, ""))
	}
	if r.Chance(1, 3) {
		b.WriteString("      - run: echo ${{ vars.UNDEFINED_VAR }}\n")
	}
	if r.Chance(1, 4) {
		b.WriteString("  mat:\n    runs-on: ubuntu-latest\n    strategy:\n      matrix: ${{ github }}\n    steps:\n      - run: echo ${{ matrix.sha }}\n")
	}
	if r.Chance(1, 4) {
		// an include element of object type from a built-in context, followed by a literal element
		b.WriteString("  inc:\n    runs-on: ubuntu-latest\n    strategy:\n      matrix:\n        include:\n          - ${{ github.event }}\n          - foo: 1\n    steps:\n      - run: echo ${{ matrix.foo }}\n")
	}
	if r.Chance(1, 4) {
		b.WriteString("  ev:\n    runs-on: ubuntu-latest\n    steps:\n      - run: echo ${{ github.event.foo.bar }}\n")
	}
	if r.Chance(1, 2) {
		// self-hosted labels of the repository's configuration (which may contain a broken pattern)
		fmt.Fprintf(&b, "  lbl:\n    runs-on: [self-hosted, %s]\n    steps:\n      - run: echo\n  lbl2:\n    runs-on: %s\n    steps:\n      - run: echo\n",
			r.Pick([]string{"gpu-1", "arm64-big", "x64-small", "nolabel"}), r.Pick([]string{"gpu-2", "arm64-a", "x64-b", "other"}))
	}
	fmt.Fprintf(&b, "  call:\n    uses: %s\n", wf)
	var wi []string
	for i, n := range wfi.names {
		if r.Chance(1, 2) {
			v := "str"
			switch wfi.typ[i] {
			case "number":
				v = "3"
			case "boolean":
				v = "true"
			}
			if r.Chance(1, 6) {
				v = "notmatching"
			}
			wi = append(wi, fmt.Sprintf("      %s: %s\n", n, v))
		}
	}
	if len(wi) > 0 {
		b.WriteString("    with:\n" + strings.Join(wi, ""))
	}
	if r.Chance(2, 3) {
		b.WriteString("    secrets:\n      tok: ${{ secrets.T }}\n")
	}
	if r.Chance(1, 2) {
		// the outputs of the call as seen by a dependent job (declared, undeclared)
		b.WriteString("  after:\n    needs: [call]\n    runs-on: ubuntu-latest\n    steps:\n      - run: echo ${{ needs.call.outputs.res }} ${{ needs.call.outputs.nope }}\n")
	}
	if r.Chance(1, 5) {
		// a malformed call of the same local workflow (a ref is not allowed on a local path)
		fmt.Fprintf(&b, "  badcall:\n    uses: %s@main\n", wf)
	}
	return b.String()
}

type repo struct {
	root  string
	files []string // workflow files (absolute)
}

// genRepo creates a repository below dir with one local action, one reusable
// workflow (itself a lintable file of the run) and k caller workflows.
func genRepo(r *hx.Rng, root string, k int) repo {
	hx.Must(os.MkdirAll(filepath.Join(root, ".git"), 0o755))
	af, wfi := genIface(r), genIface(r)
	write(filepath.Join(root, ".github", "actions", "act", "action.yml"), af.actionYAML("act"))
	write(filepath.Join(root, ".github", "actions", "act", "index.js"), "")
	// a second local action whose directory holds BOTH metadata file names with different
	// interfaces (a stale file left by a rename): which one is read is decided by the directory
	// alone, not by what was looked up before
	af2, af3 := genIface(r), genIface(r)
	write(filepath.Join(root, ".github", "actions", "act2", "action.yaml"), af2.actionYAML("act2"))
	write(filepath.Join(root, ".github", "actions", "act2", "action.yml"), af3.actionYAML("act2-stale"))
	write(filepath.Join(root, ".github", "actions", "act2", "index.js"), "")
	callee := filepath.Join(root, ".github", "workflows", "callee.yaml")
	write(callee, wfi.calleeYAML())
	cfg := "config-variables:\n  - ZETA\n  - ALPHA\n  - MIDDLE\n"
	switch r.Intn(3) {
	case 0:
		cfg += "self-hosted-runner:\n  labels:\n    - gpu-*\n    - arm64-*\n    - x64-*\n"
	case 1: // a broken glob pattern in the middle of the list
		cfg += "self-hosted-runner:\n  labels:\n    - gpu-*\n    - 'bad[pattern'\n    - arm64-*\n    - x64-*\n"
	}
	// patterns for files named from the ROOT of the repository (not "**/"): they apply wherever
	// the linter is started from
	// (the ignored message is one planted for this purpose - `github.zz_mark` in every caller - so
	// that no other difference between runs can hide behind the patterns; no draw from r)
	if len(root)%2 == 0 || k == 1 {
		cfg += "paths:\n  .github/workflows/caller*.yaml:\n    ignore:\n      - 'zz_mark'\n  .github/workflows/nosuch.yaml:\n    ignore:\n      - '.*'\n"
	}
	write(filepath.Join(root, ".github", "actionlint.yaml"), cfg)
	rp := repo{root: root, files: []string{callee}}
	for i := 0; i < k; i++ {
		p := filepath.Join(root, ".github", "workflows", fmt.Sprintf("caller%d.yaml", i))
		if i%2 == 1 {
			write(p, callerYAML(r, "./.github/actions/act2", af2, "./.github/workflows/callee.yaml", wfi))
		} else {
			write(p, callerYAML(r, "./.github/actions/act", af, "./.github/workflows/callee.yaml", wfi))
		}
		rp.files = append(rp.files, p)
	}
	return rp
}

// ---------------------------------------------------------------- linting

func perFile(errs []*actionlint.Error, base string) map[string]string {
	m := map[string][]string{}
	for _, e := range errs {
		p := e.Filepath
		if !filepath.IsAbs(p) {
			p = filepath.Join(base, p)
		}
		m[p] = append(m[p], fmt.Sprintf("%d:%d: %s [%s]", e.Line, e.Column, e.Message, e.Kind))
	}
	out := map[string]string{}
	for k, v := range m {
		out[k] = strings.Join(v, "\n")
	}
	return out
}

func newLinter() *actionlint.Linter { return newLinterWD("") }

// newLinterWD: a linter whose working directory (LinterOptions.WorkingDir) is wd, which need not
// be the working directory of the process ("" = the process's)
func newLinterWD(wd string) *actionlint.Linter {
	var out bytes.Buffer
	l, err := actionlint.NewLinter(&out, &actionlint.LinterOptions{Color: actionlint.ColorOptionKindNever, WorkingDir: wd})
	hx.Must(err)
	return l
}

func cwd() string {
	d, err := os.Getwd()
	hx.Must(err)
	return d
}

// ---------------------------------------------------------------- main

func coqPath(p string) string {
	parts := []string{}
	for _, c := range strings.Split(strings.Trim(filepath.ToSlash(p), "/"), "/") {
		if c != "" {
			parts = append(parts, hx.CoqStr(c))
		}
	}
	return hx.CoqList(parts)
}

func main() {
	seed := flag.Uint64("seed", 1, "PRNG seed")
	nattr := flag.Int("nattr", 300, "attribution histories")
	nrepo := flag.Int("nrepo", 6, "generated repository groups for the isolation part")
	maxfiles := flag.Int("maxfiles", 4, "largest subset size")
	nonce := flag.Int("nonce", 60, "generated repositories for the once-per-run part")
	out := flag.String("out", "", "output directory")
	replay := flag.String("replay", "", "replay file")
	extractGlobals := flag.String("extract-globals", "", "translator mode: list the package-level variables of the package in this directory")
	gen := flag.String("gen", "GenGlobals.v", "output of -extract-globals")
	flag.Parse()
	if *extractGlobals != "" {
		os.Exit(doExtractGlobals(*extractGlobals, *gen))
	}
	if *replay != "" {
		b, err := os.ReadFile(*replay)
		hx.Must(err)
		var f failure
		hx.Must(json.Unmarshal(b, &f))
		fmt.Printf("replay of %s\ninput: %s\ngot:\n%s\nwant:\n%s\n", f.What, f.Input, f.Got, f.Want)
		fmt.Println("REPLAY: re-run `./check C10 quick` with the same VERIF_SEED to regenerate the repositories of this input")
		os.Exit(1)
	}
	hx.Must(os.MkdirAll(*out, 0o755))
	scratch, err := filepath.Abs(filepath.Join(*out, "scratch"))
	hx.Must(err)
	os.RemoveAll(scratch)
	r := hx.NewRng(*seed)
	sum := hx.NewSummary("C10")
	sum.Rule = "(A) look-up histories over directory trees with prefix-sharing siblings and nested repositories; (B) every workflow of generated repositories (local action + reusable workflow + callers, shared config) linted alone and in all orders of subsets through LintFiles under GOMAXPROCS 1/4/16, per-file diagnostics compared; (C) fingerprints of the built-in tables before/after; the binary is built with -race.  non-trivial = a history with >= 2 look-ups that hit different repositories, or a subset run with >= 2 files of which one has diagnostics"
	nontrivial := 0
	before := tables()

	// ---- (A) attribution
	cases, err := os.Create(filepath.Join(*out, "cases_attr.txt"))
	hx.Must(err)
	defer cases.Close()
	type tree struct {
		roots []string
		files []string
	}
	mkTree := func(id int) tree {
		base := filepath.Join(scratch, fmt.Sprintf("t%d", id))
		var t tree
		addRepo := func(rel string) {
			root := filepath.Join(base, rel)
			hx.Must(os.MkdirAll(filepath.Join(root, ".git"), 0o755))
			f := filepath.Join(root, ".github", "workflows", "w.yaml")
			write(f, "on: push\njobs:\n  a:\n    runs-on: ubuntu-latest\n    steps:\n      - run: echo\n")
			t.roots = append(t.roots, root)
			t.files = append(t.files, f)
			g := filepath.Join(root, "sub", "dir", "x.yaml")
			write(g, "on: push\n")
			t.files = append(t.files, g)
		}
		addRepo("repo")
		addRepo("Repo") // differs from "repo" in letter case only (case-sensitive file systems)
		addRepo("repo2")
		addRepo("repo-extra")
		addRepo("outer")
		addRepo(filepath.Join("outer", "vendor", "inner"))
		addRepo(filepath.Join("outer", "vendor", "inner", "deep", "innermost"))
		// a repository (nested in `outer`) whose .github/workflows is a symbolic link to a directory
		// elsewhere in it, and whose .git is a file (worktree / submodule layout)
		{
			root := filepath.Join(base, "outer", "linked")
			hx.Must(os.MkdirAll(filepath.Join(root, "ci", "workflows"), 0o755))
			hx.Must(os.MkdirAll(filepath.Join(root, ".github"), 0o755))
			write(filepath.Join(root, ".git"), "gitdir: ../.git/worktrees/linked\n")
			write(filepath.Join(root, "ci", "workflows", "w.yaml"), "on: push\njobs:\n  a:\n    runs-on: ubuntu-latest\n    steps:\n      - run: echo\n")
			hx.Must(os.Symlink(filepath.Join("..", "ci", "workflows"), filepath.Join(root, ".github", "workflows")))
			t.roots = append(t.roots, root)
			t.files = append(t.files, filepath.Join(root, ".github", "workflows", "w.yaml"), filepath.Join(root, "ci", "workflows", "w.yaml"))
		}
		// files outside of any repository
		o := filepath.Join(base, "norepo", "a.yaml")
		write(o, "on: push\n")
		t.files = append(t.files, o)
		// a directory with .github/workflows but no .git is not a root
		write(filepath.Join(base, "nogit", ".github", "workflows", "w.yaml"), "on: push\n")
		t.files = append(t.files, filepath.Join(base, "nogit", ".github", "workflows", "w.yaml"))
		return t
	}
	t := mkTree(0)
	nearest := func(p string) string {
		best := ""
		for _, root := range t.roots {
			if p == root || strings.HasPrefix(p, root+string(filepath.Separator)) {
				if len(root) > len(best) {
					best = root
				}
			}
		}
		return best
	}
	rootIdx := func(root string) int {
		for i, x := range t.roots {
			if x == root {
				return i + 1
			}
		}
		return 0
	}
	for i := 0; i < *nattr; i++ {
		n := 1 + r.Intn(6)
		var hist []string
		for j := 0; j < n; j++ {
			hist = append(hist, t.files[r.Intn(len(t.files))])
		}
		ps := actionlint.NewProjects()
		var obs []string
		distinct := map[string]bool{}
		for _, p := range hist {
			proj, err := ps.At(p)
			got := ""
			if err == nil && proj != nil {
				got = proj.RootDir()
			}
			want := nearest(p)
			distinct[want] = true
			if got != want {
				sum.OracleFails = append(sum.OracleFails, failure{What: "a file is attributed to a repository that does not contain it (or not to the nearest one)", Key: "attribution:" + strings.TrimPrefix(p, scratch), Input: strings.Join(hist, " , "), Got: got, Want: want})
			}
			obs = append(obs, fmt.Sprintf("[%d]%%N", rootIdx(got)))
		}
		sum.Evaluations++
		if len(distinct) >= 2 {
			nontrivial++
		}
		rs, hs := []string{}, []string{}
		for _, x := range t.roots {
			rs = append(rs, coqPath(x))
		}
		for _, x := range hist {
			hs = append(hs, coqPath(x))
		}
		fmt.Fprintf(cases, "((%s, %s), %s)\n", hx.CoqList(rs), hx.CoqList(hs), hx.CoqList(obs))
		sum.Dist["attribution_histories"]++
	}

	// ---- (B) isolation
	for g := 0; g < *nrepo; g++ {
		base := filepath.Join(scratch, fmt.Sprintf("g%d", g))
		ra := genRepo(r, filepath.Join(base, "proj"), 4)
		rb := genRepo(r, filepath.Join(base, "proj2"), 1) // sibling sharing a name prefix
		rc := genRepo(r, filepath.Join(base, "proj", "third_party", "nested"), 1)
		files := append(append(append([]string{}, ra.files...), rb.files...), rc.files...)
		// a file outside of any repository, with a malformed call of a local workflow (a ref is
		// not allowed on a local path) and a call of a path that is a directory
		lone := filepath.Join(base, "norepo", "lone.yaml")
		write(lone, "on: push\njobs:\n  a:\n    uses: ./x.yml@main\n  b:\n    runs-on: ubuntu-latest\n    steps:\n      - run: echo ${{ vars.UNDEFINED_VAR }}\n")
		files = append(files, lone)
		// one file whose two jobs call a "workflow" that is a directory: the callee's defect is
		// reported once per run
		hx.Must(os.MkdirAll(filepath.Join(ra.root, ".github", "workflows", "shared"), 0o755))
		twice := filepath.Join(ra.root, ".github", "workflows", "twice.yaml")
		write(twice, "on: push\njobs:\n  a:\n    uses: ./.github/workflows/shared\n  b:\n    uses: ./.github/workflows/shared\n")
		{
			errs, err := newLinter().LintFile(twice, nil)
			n := 0
			for _, e := range errs {
				if e.Kind == "workflow-call" && strings.Contains(e.Message, "shared") && (strings.Contains(e.Message, "could not read") || strings.Contains(e.Message, "error while parsing")) {
					n++
				}
			}
			sum.Evaluations++
			sum.Dist["once_per_run_checks"]++
			if err != nil || n != 1 {
				sum.OracleFails = append(sum.OracleFails, failure{What: fmt.Sprintf("a callee that cannot be read is called by two jobs of ONE file: its defect is reported %d times in the run (once per run is demanded), error %v", n, err),
					Key: fmt.Sprintf("once-per-run:single-file:%d", n), Input: "file /proj/.github/workflows/twice.yaml (two jobs, uses: ./.github/workflows/shared which is a directory)", Got: fmt.Sprint(perFile(errs, cwd()))})
			}
		}
		files = append(files, twice)
		// a file whose ONLY call of the repository's reusable workflow is malformed (a ref on a local
		// path): what it leaves in the shared cache must not change how the proper calls of the other
		// files are checked
		badonly := filepath.Join(ra.root, ".github", "workflows", "badonly.yaml")
		write(badonly, "on: push\njobs:\n  a:\n    uses: ./.github/workflows/callee.yaml@main\n  b:\n    runs-on: ubuntu-latest\n    steps:\n      - uses: ./.github/actions/act@v1\n")
		files = append(files, badonly)
		// every file gets a workflow name of its own (the sequenced runs below identify the files by it)
		seqName := map[string]string{}
		for fi, f := range files {
			b, err := os.ReadFile(f)
			hx.Must(err)
			if !bytes.HasPrefix(b, []byte("name:")) && !bytes.Contains(b, []byte("\nname:")) {
				seqName[f] = fmt.Sprintf("seq-%d-%d", g, fi)
				write(f, "name: "+seqName[f]+"\n"+string(b))
			}
		}
		// alone
		alone := map[string]string{}
		rootOf := func(f string) string {
			best := ""
			for _, rt := range []string{ra.root, rb.root, rc.root} {
				if strings.HasPrefix(f, rt+string(filepath.Separator)) && len(rt) > len(best) {
					best = rt
				}
			}
			return best
		}
		for _, f := range files {
			// alone = from the root of its own repository (the reference the property names)
			wd := rootOf(f)
			pb := wd
			if pb == "" {
				pb = cwd()
			}
			errs, err := newLinterWD(wd).LintFile(f, nil)
			if err != nil {
				sum.OracleFails = append(sum.OracleFails, failure{What: "fatal error linting a generated file alone", Key: "fatal-alone", Input: f, Got: err.Error()})
				continue
			}
			alone[f] = perFile(errs, pb)[f]
			if alone[f] != "" {
				sum.Dist["files_with_diagnostics"]++
			} else {
				sum.Dist["files_clean"]++
			}
		}
		// subsets and orders
		for k := 0; k < 40; k++ {
			n := 2 + r.Intn(*maxfiles-1)
			if k%5 == 4 {
				n = 1 // "every subset": the run of one file
			}
			p := r.Perm(len(files))
			var sub []string
			for _, i := range p[:n] {
				sub = append(sub, files[i])
			}
			runtime.GOMAXPROCS([]int{1, 4, 16}[k%3])
			// the linter's working directory: the process's, or a directory elsewhere (library use)
			wd := []string{"", "", base, rb.root, filepath.Join(ra.root, ".github")}[r.Intn(5)]
			pbase := wd
			if pbase == "" {
				pbase = cwd()
			}
			sum.Dist[fmt.Sprintf("subset_size_%d", n)]++
			if wd != "" {
				sum.Dist["subset_runs_with_foreign_working_dir"]++
			}
			cur, _ := json.Marshal(map[string]interface{}{"files": sub, "working_dir": wd, "gomaxprocs": []int{1, 4, 16}[k%3]})
			os.WriteFile(filepath.Join(*out, "current.json"), cur, 0o644) // if a goroutine panics the driver reports this run
			errs, err := newLinterWD(wd).LintFiles(sub, nil)
			sum.Evaluations++
			sum.Dist["subset_runs"]++
			if err != nil {
				sum.OracleFails = append(sum.OracleFails, failure{What: "fatal error in a multi-file run", Key: "fatal-multi", Input: strings.Join(sub, " , "), Got: err.Error()})
				continue
			}
			got := perFile(errs, pbase)
			nt := false
			for _, f := range sub {
				if alone[f] != "" {
					nt = true
				}
				if got[f] != alone[f] {
					rel := strings.TrimPrefix(f, base)
					sum.OracleFails = append(sum.OracleFails, failure{
						What:  "a file gets different diagnostics in a multi-file run than when linted alone",
						Key:   "isolation:" + classifyDiff(got[f], alone[f]),
						Input: "file " + rel + " in run [" + strings.ReplaceAll(strings.Join(sub, " , "), base, "") + "]",
						Got:   got[f], Want: alone[f]})
				}
			}
			if nt {
				nontrivial++
			}
			// the same files once more, visited one after another in the order of the arguments
			if n >= 2 {
				var names []string
				for _, f := range sub {
					names = append(names, seqName[f])
				}
				cur, _ := json.Marshal(map[string]interface{}{"files": sub, "working_dir": wd, "sequenced": true})
				os.WriteFile(filepath.Join(*out, "current.json"), cur, 0o644)
				errs, err := sequencedLint(wd, sub, names)
				sum.Evaluations++
				sum.Dist["sequenced_subset_runs"]++
				if err != nil {
					sum.OracleFails = append(sum.OracleFails, failure{What: "fatal error in a sequenced multi-file run", Key: "fatal-multi", Input: strings.Join(sub, " , "), Got: err.Error()})
					continue
				}
				got := perFile(errs, pbase)
				for _, f := range sub {
					if got[f] != alone[f] {
						sum.OracleFails = append(sum.OracleFails, failure{
							What:  "a file gets different diagnostics when the files of the run are visited one after another in the order of the arguments than when linted alone",
							Key:   "isolation-sequenced:" + classifyDiff(got[f], alone[f]),
							Input: "file " + strings.TrimPrefix(f, base) + " in the sequenced run [" + strings.ReplaceAll(strings.Join(sub, " , "), base, "") + "]",
							Got:   got[f], Want: alone[f]})
					}
				}
			}
		}
		// the library entry point for a directory: every workflow below it, each attributed to ITS
		// repository (a nested one included)
		{
			dir := filepath.Join(ra.root)
			cur, _ := json.Marshal(map[string]interface{}{"lint_dir": dir})
			os.WriteFile(filepath.Join(*out, "current.json"), cur, 0o644)
			errs, err := newLinter().LintDir(dir, nil)
			sum.Evaluations++
			sum.Dist["lint_dir_runs"]++
			if err != nil {
				sum.OracleFails = append(sum.OracleFails, failure{What: "fatal error in LintDir", Key: "fatal-lintdir", Input: dir, Got: err.Error()})
			} else {
				got := perFile(errs, cwd())
				for _, f := range files {
					if !strings.HasPrefix(f, dir+string(filepath.Separator)) {
						continue
					}
					if got[f] != alone[f] {
						sum.OracleFails = append(sum.OracleFails, failure{
							What:  "a file gets different diagnostics under LintDir(<its repository>, nil) than when linted alone",
							Key:   "isolation-lintdir:" + classifyDiff(got[f], alone[f]),
							Input: "file " + strings.TrimPrefix(f, base) + " under LintDir(" + strings.TrimPrefix(dir, base) + ")",
							Got:   got[f], Want: alone[f]})
					}
				}
			}
		}
		os.Remove(filepath.Join(*out, "current.json"))
		if g == 0 {
			src, _ := os.ReadFile(ra.files[1])
			sum.Samples = append(sum.Samples, map[string]interface{}{"repository": "proj, proj2 (sibling), proj/third_party/nested", "caller0.yaml": string(src), "alone": alone[ra.files[1]]})
		}
	}
	runtime.GOMAXPROCS(runtime.NumCPU())

	// ---- (D) once per run
	casesOnce, err := os.Create(filepath.Join(*out, "cases_once.txt"))
	hx.Must(err)
	defer casesOnce.Close()
	for g := 0; g < *nonce; g++ {
		nontrivial += onceRuns(r, scratch, g, sum, casesOnce)
	}

	// ---- (C) tables
	after := tables()
	for _, k := range hx.SortedKeys(before) {
		sum.Dist["tables_fingerprinted"]++
		if before[k] != after[k] {
			sum.OracleFails = append(sum.OracleFails, failure{What: "a built-in table was modified by linting", Key: "table:" + k, Input: k, Got: firstDiff(before[k], after[k])})
		}
	}
	sum.Nontrivial = nontrivial
	sum.Samples = append(sum.Samples, map[string]interface{}{"attribution_roots": []string{"repo", "Repo", "repo2", "repo-extra", "outer", "outer/vendor/inner", "outer/vendor/inner/deep/innermost", "outer/linked (workflows directory is a symbolic link, .git is a file)"}})
	sum.Write(filepath.Join(*out, "summary.json"))
	os.RemoveAll(scratch)
}

// classifyDiff names the class of a per-file difference: which rule kinds the
// differing lines belong to.
func classifyDiff(a, b string) string {
	set := func(s string) map[string]bool {
		m := map[string]bool{}
		for _, l := range strings.Split(s, "\n") {
			if l != "" {
				m[l] = true
			}
		}
		return m
	}
	sa, sb := set(a), set(b)
	kinds := map[string]bool{}
	for l := range sa {
		if !sb[l] {
			kinds[kindOf(l)] = true
		}
	}
	for l := range sb {
		if !sa[l] {
			kinds[kindOf(l)] = true
		}
	}
	ks := []string{}
	for k := range kinds {
		ks = append(ks, k)
	}
	sort.Strings(ks)
	return strings.Join(ks, ",")
}

func kindOf(l string) string {
	i := strings.LastIndex(l, "[")
	if i < 0 {
		return "?"
	}
	msg := l
	if j := strings.Index(l, ": "); j >= 0 {
		msg = l[j+2:]
	}
	words := strings.Fields(msg)
	head := ""
	if len(words) > 0 {
		head = words[0]
	}
	return strings.Trim(l[i:], "[]") + "/" + head
}

func firstDiff(a, b string) string {
	n := len(a)
	if len(b) < n {
		n = len(b)
	}
	i := 0
	for i < n && a[i] == b[i] {
		i++
	}
	lo := i - 60
	if lo < 0 {
		lo = 0
	}
	ha, hb := i+60, i+60
	if ha > len(a) {
		ha = len(a)
	}
	if hb > len(b) {
		hb = len(b)
	}
	return "before: …" + a[lo:ha] + "… after: …" + b[lo:hb] + "…"
}
