// Package hx holds helpers shared by the correspondence harness commands:
// one PRNG derived from VERIF_SEED, Coq term printers, JSON summaries.
package hx

import (
	"encoding/json"
	"fmt"
	"os"
	"sort"
	"strings"
)

// Rng is splitmix64; every random choice of a run derives from one state.
type Rng struct{ s uint64 }

func NewRng(seed uint64) *Rng {
	// scramble the seed so that neighbouring seeds give unrelated streams
	// (state k+1 must not be state k advanced by one draw)
	z := seed + 0x632BE59BD9B4E019
	z = (z ^ (z >> 30)) * 0xBF58476D1CE4E5B9
	z = (z ^ (z >> 27)) * 0x94D049BB133111EB
	return &Rng{s: z ^ (z >> 31)}
}

func (r *Rng) Next() uint64 {
	r.s += 0x9E3779B97F4A7C15
	z := r.s
	z = (z ^ (z >> 30)) * 0xBF58476D1CE4E5B9
	z = (z ^ (z >> 27)) * 0x94D049BB133111EB
	return z ^ (z >> 31)
}

// Intn returns a value in [0,n).
func (r *Rng) Intn(n int) int {
	if n <= 0 {
		return 0
	}
	return int(r.Next() % uint64(n))
}

// Chance returns true with probability num/den.
func (r *Rng) Chance(num, den int) bool { return r.Intn(den) < num }

func (r *Rng) Pick(xs []string) string { return xs[r.Intn(len(xs))] }

// Perm returns a random permutation of 0..n-1.
func (r *Rng) Perm(n int) []int {
	p := make([]int, n)
	for i := range p {
		p[i] = i
	}
	for i := n - 1; i > 0; i-- {
		j := r.Intn(i + 1)
		p[i], p[j] = p[j], p[i]
	}
	return p
}

// CoqStr renders s as a Coq string literal (bytes; " doubled).
func CoqStr(s string) string {
	return "\"" + strings.ReplaceAll(s, "\"", "\"\"") + "\""
}

// CoqStrOK says whether s can be written as a Coq string literal in a source
// file: valid UTF-8 without NUL.
func CoqStrOK(s string) bool {
	if strings.ContainsRune(s, 0) {
		return false
	}
	for _, r := range s {
		if r == 0xFFFD {
			return false
		}
	}
	return true
}

func CoqN(n int) string {
	if n < 0 {
		n = 0
	}
	return fmt.Sprintf("%d%%N", n)
}

func CoqPos(line, col int) string { return fmt.Sprintf("(%d%%N,%d%%N)", line, col) }

func CoqBool(b bool) string {
	if b {
		return "true"
	}
	return "false"
}

func CoqList(xs []string) string { return "[" + strings.Join(xs, "; ") + "]" }

func CoqOpt(present bool, x string) string {
	if !present {
		return "None"
	}
	return "(Some " + x + ")"
}

// Summary is what a harness command reports back to the check driver.
type Summary struct {
	Property    string                 `json:"property"`
	Evaluations int                    `json:"evaluations"`
	Nontrivial  int                    `json:"distinct_nontrivial"`
	Rule        string                 `json:"rule"`
	Samples     []interface{}          `json:"samples"`
	Dist        map[string]int         `json:"distribution"`
	OracleFails []interface{}          `json:"oracle_failures"`
	Extra       map[string]interface{} `json:"extra,omitempty"`
}

func NewSummary(prop string) *Summary {
	return &Summary{Property: prop, Dist: map[string]int{}, Samples: []interface{}{}, OracleFails: []interface{}{}, Extra: map[string]interface{}{}}
}

func (s *Summary) Write(path string) {
	b, err := json.MarshalIndent(s, "", " ")
	if err != nil {
		panic(err)
	}
	if err := os.WriteFile(path, b, 0o644); err != nil {
		panic(err)
	}
}

// SortedKeys returns the keys of a string-keyed map in sorted order.
func SortedKeys[V any](m map[string]V) []string {
	ks := make([]string, 0, len(m))
	for k := range m {
		ks = append(ks, k)
	}
	sort.Strings(ks)
	return ks
}

func Must(err error) {
	if err != nil {
		fmt.Fprintln(os.Stderr, "harness error:", err)
		os.Exit(2)
	}
}
