module verifharness

go 1.18

require (
	github.com/bmatcuk/doublestar/v4 v4.8.0
	github.com/mattn/go-runewidth v0.0.16
	github.com/rhysd/actionlint v0.0.0
	github.com/robfig/cron/v3 v3.0.1
	gopkg.in/yaml.v3 v3.0.1
)

require (
	github.com/fatih/color v1.18.0 // indirect
	github.com/mattn/go-colorable v0.1.14 // indirect
	github.com/mattn/go-isatty v0.0.20 // indirect
	github.com/mattn/go-shellwords v1.0.12 // indirect
	github.com/rivo/uniseg v0.4.7 // indirect
	golang.org/x/sync v0.10.0 // indirect
	golang.org/x/sys v0.29.0 // indirect
)

replace github.com/rhysd/actionlint => /repo
