import sys, subprocess, os, json
REPO=os.environ.get('VERIF_REPO','/var/tmp/repo-lexparse')  # a scratch worktree of /repo with the fix patch applied; never /repo itself
MUTS = {
 'trailing_comma': ('expr_parser.go', """				case TokenKindComma:
					p.next() // eat ','
					// continue to next argument
""", """				case TokenKindComma:
					p.next() // eat ','
					if p.peek().Kind == TokenKindRightParen {
						p.next()
						break LoopArgs
					}
"""),
 'deref_int': ('expr_parser.go', """			case TokenKindIdent:
				t := p.next() // eat 'b' of 'a.b'
""", """			case TokenKindIdent, TokenKindInt:
				t := p.next() // eat 'b' of 'a.b'
"""),
 'not_loose': ('expr_parser.go', """	o := p.parsePrefixOp()
	if o == nil {""", """	o := p.parseCompareBinOp()
	if o == nil {"""),
 'keyword_fold': ('expr_parser.go', """		switch ident.Value {
		case "null":""", """		switch strings.ToLower(ident.Value) {
		case "null":"""),
 'swap_and_or': ('expr_parser.go', None, None),
 'cmp_nonassoc': ('expr_parser.go', """	r := p.parseCompareBinOp()
	if r == nil {""", """	r := p.parsePrefixOp()
	if r == nil {"""),
 'ws_vtab': ('expr_lexer.go', """	return r == ' ' || r == '\\n' || r == '\\r' || r == '\\t'""", """	return r == ' ' || r == '\\n' || r == '\\r' || r == '\\t' || r == '\\v' || r == '\\f'"""),
 'ident_dollar': ('expr_lexer.go', """		if r := lex.eat(); !isAlnum(r) && r != '_' && r != '-' {""", """		if r := lex.eat(); !isAlnum(r) && r != '_' && r != '-' && r != '$' {"""),
 'remaining_ok_comma': ('expr_parser.go', """	if t := p.peek(); t.Kind != TokenKindEnd {""", """	if t := p.peek(); t.Kind != TokenKindEnd && t.Kind != TokenKindComma {"""),
}
def sh(cmd, **kw):
    return subprocess.run(cmd, shell=True, stdout=subprocess.PIPE, stderr=subprocess.STDOUT, text=True, **kw)
name=sys.argv[1]
f, old, new = MUTS[name]
p=os.path.join(REPO,f)
s=open(p).read()
if name=='swap_and_or':
    a="""	if p.peek().Kind != TokenKindAnd {
		return l
	}
	p.next() // eat &&
	r := p.parseLogicalAnd()
	if r == nil {
		return nil
	}
	return &LogicalOpNode{LogicalOpNodeKindAnd, l, r}"""
    b="""	if p.peek().Kind != TokenKindOr {
		return l
	}
	p.next() // eat ||
	r := p.parseLogicalOr()
	if r == nil {
		return nil
	}
	return &LogicalOpNode{LogicalOpNodeKindOr, l, r}"""
    assert a in s and b in s
    s=s.replace(a,'@@A@@').replace(b,'@@B@@')
    s=s.replace('@@A@@', a.replace('TokenKindAnd','TokenKindOr').replace('LogicalOpNodeKindAnd','LogicalOpNodeKindOr')).replace('@@B@@', b.replace('TokenKindOr','TokenKindAnd').replace('LogicalOpNodeKindOr','LogicalOpNodeKindAnd'))
else:
    assert s.count(old)==1, name
    s=s.replace(old,new)
open(p,'w').write(s)
env='export GOFLAGS=-mod=mod GOPROXY=off GOSUMDB=off GOTOOLCHAIN=local; '
t=sh(env+'cd %s && timeout 600 go test -count=1 . 2>&1 | tail -3'%REPO)
print('== %s: package tests: %s' % (name, t.stdout.strip().replace('\n',' | ')[-300:]))
c=sh(env+'cd '+os.path.dirname(os.path.dirname(os.path.abspath(__file__)))+' && VERIF_REPO=%s timeout 600 ./check C04 quick 2>&1 | grep -v KNOWN-FINDING | tail -3'%REPO)
print(c.stdout.strip())
try:
    v=json.load(open(''+os.path.dirname(os.path.dirname(os.path.abspath(__file__)))+'/replays/C04/violation_0.json'))
    print('   replay:', v.get('what'), repr(v.get('input')), 'failing inputs:', v.get('failing_inputs_total'), 'broken:', [b[:90] for b in v.get('broken',[])])
except Exception as e:
    print('   no replay', e)
sh('cd %s && git checkout -q -- . '%REPO)
sh('rm -rf '+os.path.dirname(os.path.dirname(os.path.abspath(__file__)))+'/replays/C04')
