(* ocaml/c18/driver.ml — bulk correspondence for C18: reads the cases the Go
   harness wrote (one per line), converts them to the Coq data types of the
   extracted model (needs_model.ml, extracted from coq/Graph by
   coq/Extract/GraphExtract.v with ExtrOcamlBasic only) and evaluates the
   extracted [k_check] on each.  Prints "MISMATCH <line index>" for every case
   on which the check is false and a final "DONE <cases> <mismatches>".

   line format (blank separated; strings are written as '=' followed by the text):
     J n (=id line col k (=need line col)^k)^n
     O m (k (=key)^k)^m            explicit iteration orders, m = 0: all permutations
     I r (t (len v^len)^t)^r       observables of the implementation *)
open Needs_model

let rec pos_of_int n =
  if n = 1 then XH
  else if n land 1 = 1 then XI (pos_of_int (n lsr 1))
  else XO (pos_of_int (n lsr 1))

let n_of_int i = if i <= 0 then N0 else Npos (pos_of_int i)

let ascii_of_char c =
  let k = Char.code c in
  let b i = (k lsr i) land 1 = 1 in
  Ascii (b 0, b 1, b 2, b 3, b 4, b 5, b 6, b 7)

let coq_string (s : Stdlib.String.t) : Needs_model.string =
  let r = ref EmptyString in
  for i = Stdlib.String.length s - 1 downto 0 do
    r := String (ascii_of_char s.[i], !r)
  done;
  !r

exception Bad of Stdlib.String.t

let parse_case (line : Stdlib.String.t) =
  let toks = Array.of_list (List.filter (fun t -> t <> "") (Stdlib.String.split_on_char ' ' line)) in
  let i = ref 0 in
  let next () =
    if !i >= Array.length toks then raise (Bad "truncated");
    let t = toks.(!i) in incr i; t in
  let int () = let t = next () in try int_of_string t with _ -> raise (Bad ("int expected: " ^ t)) in
  let str () =
    let t = next () in
    if Stdlib.String.length t = 0 || t.[0] <> '=' then raise (Bad ("string expected: " ^ t));
    coq_string (Stdlib.String.sub t 1 (Stdlib.String.length t - 1)) in
  let expect s = let t = next () in if t <> s then raise (Bad ("expected " ^ s ^ " got " ^ t)) in
  let rec times k f = if k <= 0 then [] else let x = f () in x :: times (k - 1) f in
  expect "J";
  let nj = int () in
  let jobs = times nj (fun () ->
    let id = str () in
    let l = int () in let c = int () in
    let k = int () in
    let needs = times k (fun () ->
      let v = str () in let l = int () in let c = int () in ((n_of_int l, n_of_int c), v)) in
    { j_id = id; j_pos = (n_of_int l, n_of_int c); j_needs = needs }) in
  expect "O";
  let m = int () in
  let ords = times m (fun () -> let k = int () in times k str) in
  expect "I";
  let r = int () in
  let impl = times r (fun () ->
    let t = int () in
    times t (fun () -> let len = int () in times len (fun () -> n_of_int (int ())))) in
  ((jobs, ords), impl)

let rec int_of_pos = function XH -> 1 | XO p -> 2 * int_of_pos p | XI p -> 2 * int_of_pos p + 1
let int_of_n = function N0 -> 0 | Npos p -> int_of_pos p

let rec ocaml_string = function
  | EmptyString -> ""
  | String (Ascii (b0, b1, b2, b3, b4, b5, b6, b7), s) ->
      let bit b i = if b then 1 lsl i else 0 in
      Stdlib.String.make 1 (Char.chr (bit b0 0 + bit b1 1 + bit b2 2 + bit b3 3 + bit b4 4 + bit b5 5 + bit b6 6 + bit b7 7))
      ^ ocaml_string s

(* with VERIF_C18_VERBOSE set: the model's observable for the first order
   (explicit, or the order of the job list) is printed with every mismatch *)
let verbose = try ignore (Sys.getenv "VERIF_C18_VERBOSE"); true with Not_found -> false

let show_model ((jobs, ords), _) =
  let ord = match ords with
    | o :: _ -> o
    | [] -> List.map (fun j -> lower j.j_id) jobs in
  let o = obs jobs ord in
  Printf.printf "  model(%s) = [%s]\n"
    (Stdlib.String.concat "," (List.map ocaml_string ord))
    (Stdlib.String.concat "; " (List.map (fun t -> Stdlib.String.concat " " (List.map (fun x -> string_of_int (int_of_n x)) t)) o))

let () =
  let ic = if Array.length Sys.argv > 1 then open_in Sys.argv.(1) else stdin in
  let idx = ref 0 and bad = ref 0 in
  (try
     while true do
       let line = input_line ic in
       if Stdlib.String.length line > 0 then begin
         (match (try Some (parse_case line) with Bad msg ->
                   Printf.printf "BADLINE %d %s\n" !idx msg; None) with
          | Some c -> if not (k_check c) then begin
              incr bad; Printf.printf "MISMATCH %d\n" !idx;
              if verbose then (Printf.printf "  %s\n" line; show_model c) end
          | None -> incr bad);
         incr idx
       end
     done
   with End_of_file -> ());
  Printf.printf "DONE %d %d\n" !idx !bad
