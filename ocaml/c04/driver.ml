(* ocaml/c04/driver.ml — evaluates the extracted Coq model (C04_model.run_c04)
   on the inputs the Go harness sends on stdin, one per line:
     hex(src) TAB hex(bad float),... TAB observable of the implementation
   and prints every disagreement:  MISMATCH TAB hex(src) TAB impl TAB model
   and finally                     DONE TAB evaluated TAB mismatches
   Trusted glue: conversions between OCaml strings/ints and the Coq
   inductives string/ascii/N, rendering of the observable. *)
open C04_model

let ascii_of_char c =
  let n = Char.code c in
  Ascii (n land 1 <> 0, n land 2 <> 0, n land 4 <> 0, n land 8 <> 0,
         n land 16 <> 0, n land 32 <> 0, n land 64 <> 0, n land 128 <> 0)

let coq_string (s : Stdlib.String.t) : C04_model.string =
  let r = ref EmptyString in
  for i = Stdlib.String.length s - 1 downto 0 do
    r := String (ascii_of_char s.[i], !r)
  done;
  !r

let rec int_of_pos = function
  | XH -> 1
  | XO p -> 2 * int_of_pos p
  | XI p -> 2 * int_of_pos p + 1

let int_of_n = function N0 -> 0 | Npos p -> int_of_pos p

let unhex (h : Stdlib.String.t) : Stdlib.String.t =
  let n = Stdlib.String.length h / 2 in
  Stdlib.String.init n (fun i -> Char.chr (int_of_string ("0x" ^ Stdlib.String.sub h (2 * i) 2)))

let render (obs : n list list) : Stdlib.String.t =
  Stdlib.String.concat ";"
    (List.map (fun t -> Stdlib.String.concat "," (List.map (fun x -> string_of_int (int_of_n x)) t)) obs)

let () =
  let legacy = Array.length Sys.argv > 1 && Sys.argv.(1) = "-prefix" in
  let total = ref 0 and bad = ref 0 in
  (try
     while true do
       let line = input_line stdin in
       match Stdlib.String.split_on_char '\t' line with
       | [hsrc; hbad; want] ->
           let src = coq_string (unhex hsrc) in
           let badl =
             if hbad = "" then []
             else List.map (fun h -> coq_string (unhex h)) (Stdlib.String.split_on_char ',' hbad) in
           let got = render ((if legacy then run_c04_prefix else run_c04) (src, badl)) in
           incr total;
           if got <> want then begin
             incr bad;
             if !bad <= 200 then Printf.printf "MISMATCH\t%s\t%s\t%s\n" hsrc want got
           end
       | _ -> ()
     done
   with End_of_file -> ());
  Printf.printf "DONE\t%d\t%d\n" !total !bad
