(* ocaml/c17/driver.ml — evaluates the extracted C17 model (Globmodel.glob_obs)
   on the patterns read from stdin.  Input line: "R|P <cp> <cp> ..." (mode, then
   the items of the pattern as decimal numbers; none = empty pattern).
   A line "F" flushes the output (end of a batch).
   Output line: the observable, diagnostics joined by ';', each
   "<class>,<col>,<namekind>,<namedchar>". *)
open Globmodel

let rec pos_of_int (i : int) : positive =
  if i = 1 then XH
  else if i land 1 = 0 then XO (pos_of_int (i lsr 1))
  else XI (pos_of_int (i lsr 1))
let n_of_int i = if i = 0 then N0 else Npos (pos_of_int i)
let rec int_of_pos = function
  | XH -> 1
  | XO p -> 2 * int_of_pos p
  | XI p -> 2 * int_of_pos p + 1
let int_of_n = function N0 -> 0 | Npos p -> int_of_pos p

let cache : (int, n) Hashtbl.t = Hashtbl.create 64
let conv i =
  match Hashtbl.find_opt cache i with
  | Some v -> v
  | None -> let v = n_of_int i in Hashtbl.add cache i v; v

let () =
  let buf = Buffer.create 256 in
  let out = Buffer.create 65536 in
  (try
    while true do
      let line = input_line stdin in
      let n = String.length line in
      if n > 0 && line.[0] = 'F' then begin
        print_string (Buffer.contents out); Buffer.clear out; flush stdout
      end else if n > 0 then begin
        let is_ref = line.[0] = 'R' in
        (* parse numbers *)
        let items = ref [] in
        let cur = ref (-1) in
        for k = 1 to n - 1 do
          let ch = line.[k] in
          if ch >= '0' && ch <= '9' then
            cur := (if !cur < 0 then 0 else !cur) * 10 + (Char.code ch - 48)
          else begin
            if !cur >= 0 then items := conv !cur :: !items;
            cur := -1
          end
        done;
        if !cur >= 0 then items := conv !cur :: !items;
        let pat = List.rev !items in
        let obs = glob_obs is_ref pat in
        Buffer.clear buf;
        List.iteri (fun i t ->
          if i > 0 then Buffer.add_char buf ';';
          List.iteri (fun j x ->
            if j > 0 then Buffer.add_char buf ',';
            Buffer.add_string buf (string_of_int (int_of_n x))) t) obs;
        Buffer.add_buffer out buf;
        Buffer.add_char out '\n';
        if Buffer.length out > 60000 then begin
          print_string (Buffer.contents out); Buffer.clear out
        end
      end
    done
  with End_of_file -> ());
  print_string (Buffer.contents out);
  flush stdout
